import LZ4V.Proofs.BlockHub
/-!
# C11 — streaming (linked-block) compression round-trips over every history (specification part)
-/
namespace LZ4V.C11
open LZ4V.Spec.Block

/-- Decoder-side geometry is irrelevant: a block that decodes against the history the compressor used decodes to the
    same content against ANY longer history (contiguous prefix, `LZ4_setStreamDecode`, ring buffer, explicit dictionary:
    all of them give the decoder a superset of the last ≤ 64 KB). -/
theorem decoder_history_superset (pre hist blk D : List UInt8) (h : decode hist blk = some D) :
    decode (pre ++ hist) blk = some D := decode_history_superset pre hist blk D h

/-- A linked block is decodable as soon as it is the serialisation of a parse whose matches were byte-verified against
    `hist ++ block` — for arbitrarily long streams: the statement is per block and the history is an arbitrary list. -/
theorem linked_block_roundtrip (hist : List UInt8) (seqs : List Seq) (last input : List UInt8)
    (hwf : ∀ s ∈ seqs, 4 ≤ s.ml ∧ s.off < 65536) (hv : ValidParse hist seqs last (hist ++ input)) :
    decode hist (serialize seqs last) = some input := roundtrip hist seqs last input hwf hv

/-- non-vacuity: a block that is a single match reaching 3 bytes into the history -/
example : decode [1, 2, 3] (serialize [⟨[], 3, 4⟩] [9, 9, 9, 9, 9]) = some [1, 2, 3, 1, 9, 9, 9, 9, 9] := by decide

end LZ4V.C11
