import LZ4V.Proofs.DecodeSafe4
/-!
# C02 — safe block decoding never reads or writes outside the caller's buffers

The model (`LZ4V/Model/Decode.lean`) mirrors `LZ4_decompress_generic` label by label, both loops, all three dictionary
directives, full and partial decoding.  Every memory access of the model goes through a bounds-checked primitive
(`copyIn`, `fwd`, `memcpyB`, `wildCopy8B`, `wildCopy32B`, `zero4`, `rd8`, `rd16`) that returns `.error (.fault _)` on an
out-of-bounds read of `src` / dictionary / output buffer, an out-of-bounds write, or an overlapping `memcpy`;
the loops run on fuel `srcSize + 2`.  So "`= .ok r`" below *is* the statement: for **every** byte string, declared
size, capacity (incl. 0), target, dictionary content/size/placement, initial destination content and both settings of
`LZ4_FAST_DEC_LOOP`: no access outside the buffers, no overlapping `memcpy`, termination, and a return value that is a
negative error or at most the capacity (at most `min target capacity` for partial decoding).
-/
namespace LZ4V.C02
open LZ4V.Model LZ4V.Model.Decode

/-- `LZ4_decompress_safe` -/
theorem decompress_safe_memory_safe (fastLoop : Bool) (src dstInit : Bytes) :
    ∃ r, decompress_safe fastLoop src dstInit = .ok r ∧ r.buf.size = dstInit.size ∧ r.ret ≤ (dstInit.size : Int) := by
  have hw : WF { src := src, fastLoop := fastLoop } dstInit.size :=
    ⟨Nat.zero_le _, Int.le_refl _, fun _ => Int.le_refl _, (fun h => by cases h), rfl, fun _ => rfl⟩
  obtain ⟨r, h1, h2, h3⟩ := generic_total _ dstInit hw
  exact ⟨r, h1, h2, by simpa using h3⟩

/-- `LZ4_decompress_safe_partial` : returns at most `min target capacity`; the model hands only that part of `dst`
    to the decoder, so nothing beyond it can be written -/
theorem decompress_safe_partial_memory_safe (fastLoop : Bool) (src dstInit : Bytes) (target : Nat) :
    ∃ r, decompress_safe_partial fastLoop src dstInit target = .ok r ∧ r.ret ≤ (min target dstInit.size : Nat) := by
  unfold decompress_safe_partial
  have hw : WF { src := src, fastLoop := fastLoop, partialD := true } (dstInit.extract 0 (min target dstInit.size)).size :=
    ⟨Nat.zero_le _, Int.le_refl _, fun _ => Int.le_refl _, (fun h => by cases h), rfl, fun _ => rfl⟩
  obtain ⟨r, h1, h2, h3⟩ := generic_total _ (dstInit.extract 0 (min target dstInit.size)) hw
  simp only []
  rw [h1]
  refine ⟨_, rfl, ?_⟩
  have : (dstInit.extract 0 (min target dstInit.size)).size = min target dstInit.size := by simp
  simp only [this] at h3
  simpa using h3

/-- the geometry `LZ4_decompress_safe_usingDict` sets up is well-formed for every dictionary size and placement
    (incl. the 64 KB − 1 threshold, where `lowPrefix` is declared one byte below the real prefix) -/
theorem usingDictEnv_wf (fastLoop partialD : Bool) (src dict dst : Bytes) (pl : Placement) :
    WF (usingDictEnv fastLoop partialD src dict pl)
       (((if (usingDictEnv fastLoop partialD src dict pl).dst0 = 0 then #[] else dict) ++ dst).size) := by
  unfold usingDictEnv
  by_cases h0 : dict.size = 0
  · simp only [h0, if_true]
    exact ⟨Nat.zero_le _, Int.le_refl _, fun _ => Int.le_refl _, (fun h => by cases h), rfl, fun _ => rfl⟩
  · simp only [h0, if_false]
    cases pl with
    | contiguous =>
      by_cases h64 : dict.size ≥ 65536 - 1
      · simp only [h64, if_true]
        refine ⟨?_, ?_, fun h => absurd rfl h, fun _ => by omega, rfl, fun _ => rfl⟩
        · simp only [h0, if_false, Array.size_append]; omega
        · show (dict.size : Int) - 65536 ≤ dict.size; omega
      · simp only [h64, if_false]
        refine ⟨?_, ?_, fun _ => Int.le_refl _, (fun h => by cases h), rfl, fun _ => rfl⟩
        · simp only [h0, if_false, Array.size_append]; omega
        · show (0 : Int) ≤ dict.size; omega
    | external =>
      exact ⟨Nat.zero_le _, Int.le_refl _, fun _ => Int.le_refl _, (fun h => by cases h), rfl, fun h => absurd rfl h⟩

/-- the bytes placed in front of `dst` are exactly `dst0` many -/
theorem usingDictEnv_prefix_size (fastLoop partialD : Bool) (src dict : Bytes) (pl : Placement) :
    (if (usingDictEnv fastLoop partialD src dict pl).dst0 = 0 then (#[] : Bytes) else dict).size =
      (usingDictEnv fastLoop partialD src dict pl).dst0 := by
  unfold usingDictEnv
  by_cases h0 : dict.size = 0
  · simp [h0]
  · simp only [h0, if_false]
    cases pl with
    | contiguous =>
      by_cases h64 : dict.size ≥ 65536 - 1
      · simp [h64, h0]
      · simp [h64, h0]
    | external => simp

/-- `LZ4_decompress_safe_usingDict` (and the `_continue` geometries that reduce to it) -/
theorem decompress_safe_usingDict_memory_safe (fastLoop : Bool) (src dstInit dict : Bytes) (pl : Placement) :
    ∃ r, decompress_safe_usingDict fastLoop src dstInit dict pl = .ok r ∧ r.ret ≤ (dstInit.size : Int) := by
  unfold decompress_safe_usingDict
  have hw := usingDictEnv_wf fastLoop false src dict dstInit pl
  obtain ⟨r, h1, h2, h3⟩ := generic_total _ _ hw
  simp only []
  rw [h1]
  refine ⟨_, rfl, ?_⟩
  simp only []
  have hp := usingDictEnv_prefix_size fastLoop false src dict pl
  simp only [Array.size_append] at h3
  omega

/-- `LZ4_decompress_safe_partial_usingDict` -/
theorem decompress_safe_partial_usingDict_memory_safe (fastLoop : Bool) (src dstInit dict : Bytes) (pl : Placement) (target : Nat) :
    ∃ r, decompress_safe_partial_usingDict fastLoop src dstInit dict pl target = .ok r ∧ r.ret ≤ (min target dstInit.size : Nat) := by
  unfold decompress_safe_partial_usingDict
  have hw := usingDictEnv_wf fastLoop true src dict (dstInit.extract 0 (min target dstInit.size)) pl
  obtain ⟨r, h1, h2, h3⟩ := generic_total _ _ hw
  simp only []
  rw [h1]
  refine ⟨_, rfl, ?_⟩
  simp only []
  have hp := usingDictEnv_prefix_size fastLoop true src dict pl
  have he : (dstInit.extract 0 (min target dstInit.size)).size = min target dstInit.size := by simp
  simp only [Array.size_append, he] at h3
  omega

/-- non-vacuity: the model really runs — the 10-byte block `10 41 01 00 50 76 77 78 79 7a` decodes to 10 bytes in a
    24-byte buffer, and is cleanly rejected (negative return, still no fault) in a 9-byte buffer -/
example : (decompress_safe true #[0x10, 0x41, 0x01, 0x00, 0x50, 0x76, 0x77, 0x78, 0x79, 0x7a] (Array.replicate 24 0)).toOption.map (·.ret) = some 10 := by
  set_option maxRecDepth 20000 in decide
example : ((decompress_safe true #[0x10, 0x41, 0x01, 0x00, 0x50, 0x76, 0x77, 0x78, 0x79, 0x7a] (Array.replicate 9 0)).toOption.map (fun r => decide (r.ret < 0))) = some true := by
  set_option maxRecDepth 20000 in decide

end LZ4V.C02
