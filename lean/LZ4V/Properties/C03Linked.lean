import LZ4V.Proofs.FrameLinkedProof
/-!
# C03 / C07 — linked-blocks frames of the fast levels, end to end

`Model/FrameLinked.lean` produces the BYTES of the frames `LZ4F_compressBegin/Update/Flush/End` emit on a fresh context at the fast levels with linked
blocks (the default block mode); WHERE each block is compressed from and WHEN the history is moved (`LZ4F_localSaveDict`) is an input of the model — the
schedule — recorded from the real run by interposing the two LZ4 calls.  The theorems quantify over ALL schedules.
-/
namespace LZ4V.C03
open LZ4V.Model LZ4V.Model.FrameFast LZ4V.Model.FrameLinked
open LZ4V.Spec.FrameL

/-- for ANY schedule (blocks of legal sizes placed anywhere, history saved anywhere at any time), any block size id, checksum flags, dictID,
    declared content size (absent or true), acceleration, any 32-bit checksum function, any hash function of the compressor: the linked-blocks frame is
    one complete frame of the stream specification whose content is exactly the concatenation of the blocks — every block decoded against the last
    64 KB of the content before it, blocks that do not shrink stored raw -/
theorem linked_frame_bytes_decode_to_input (E : Env) (ok : EnvOKL E) (hashOf : Array UInt8 → Bool → Nat → Nat) (p : Prefs) (hb : 4 ≤ p.bsid ∧ p.bsid ≤ 7)
    (hcs64 : p.contentSize < 256 ^ 8) (hd32 : p.dictID < 256 ^ 4) (ops : List LOp) (hleg : LegalSizes p ops)
    (hcs : p.contentSize = 0 ∨ p.contentSize = (contentOf ops).length) :
    ∃ F, pFrame E [] F (frame E hashOf p ops) = .ok (contentOf ops, []) :=
  ⟨_, frameL_parses E ok hashOf p hb hcs64 hd32 ops hleg hcs⟩

/-- **linked blocks with a dictionary** (`LZ4F_compressBegin_usingCDict` / `_usingDict` at the fast levels): whatever the context's LZ4 stream held before,
    for every schedule after the dictionary event, the frame decodes — the decoder being given the dictionary — to exactly the blocks -/
theorem linked_frame_with_dictionary_decodes (E : Env) (ok : EnvOKL E) (hashOf : Array UInt8 → Bool → Nat → Nat) (p : Prefs) (hb : 4 ≤ p.bsid ∧ p.bsid ≤ 7)
    (hcs64 : p.contentSize < 256 ^ 8) (hd32 : p.dictID < 256 ^ 4) (dict : Bytes) (S0 : FastX.XState) (hJ0 : FastX.JX S0) (addr : Nat) (d : Array UInt8)
    (hT : FastX.IsTail d.toList dict) (attached : Bool) (ops : List LOp) (hleg : LegalSizes p ops)
    (hcs : p.contentSize = 0 ∨ p.contentSize = (contentOf ops).length) :
    ∃ F, pFrame E dict F (frameFrom E hashOf p S0 ((if attached then LOp.attach addr d else LOp.load addr d) :: ops)) = .ok (contentOf ops, []) :=
  ⟨_, frame_with_dictionary_parses E ok hashOf p hb hcs64 hd32 dict S0 hJ0 addr d hT attached ops hleg hcs⟩

/-- **independent blocks with a CDict**: the prepared stream is attached again before every block; each block decodes against the dictionary alone -/
theorem independent_cdict_frame_decodes (E : Env) (ok : EnvOKL E) (hashOf : Array UInt8 → Bool → Nat → Nat) (p : Prefs) (hb : 4 ≤ p.bsid ∧ p.bsid ≤ 7)
    (hcs64 : p.contentSize < 256 ^ 8) (hd32 : p.dictID < 256 ^ 4) (dict : Bytes) (S0 : FastX.XState) (hJ0 : FastX.JX S0)
    (ps : List (Nat × Array UInt8 × Nat × Array UInt8)) (hleg : LegalI p dict ps)
    (hcs : p.contentSize = 0 ∨ p.contentSize = (contentOf (expandI ps)).length) :
    ∃ F, pFrame E dict F (frameFromI E hashOf p S0 (expandI ps)) = .ok (contentOf (expandI ps), []) :=
  ⟨_, frameI_with_cdict_parses E ok hashOf p hb hcs64 hd32 dict S0 hJ0 ps hleg hcs⟩

/-- the hypotheses on the environment are satisfiable: any 32-bit checksum function with the block specification decoder -/
theorem linked_environment_exists (hash : Bytes → Nat) (h32 : ∀ l, hash l < 4294967296) : EnvOKL (specEnv hash) := specEnv_okL hash h32

/-- non-vacuity: a two-block schedule (second block right after the first) is legal for every block size id -/
example (p : Prefs) (hb : 4 ≤ p.bsid ∧ p.bsid ≤ 7) : LegalSizes p [.block 1000 #[1, 2, 3], .save 5000 65536, .block 1003 #[1, 2, 3]] := by
  have := (blockSizeOf_le p.bsid hb)
  have h4 : 65536 ≤ LZ4V.Spec.Frame.blockSizeOf p.bsid := by
    have : p.bsid = 4 ∨ p.bsid = 5 ∨ p.bsid = 6 ∨ p.bsid = 7 := by omega
    rcases this with h | h | h | h <;> rw [h] <;> decide
  refine ⟨⟨by decide, ?_⟩, ⟨by decide, ?_⟩, trivial⟩ <;> (show 3 ≤ _; omega)

end LZ4V.C03

namespace LZ4V.C07
open LZ4V.Model LZ4V.Model.FrameFast LZ4V.Model.FrameLinked
open LZ4V.Spec.FrameL

/-- the header of a linked-blocks frame is accepted by the specification header parser, which reads back the same fields with the independence bit clear -/
theorem produced_linked_header_conforms (E : Env) (p : Prefs) (hb : 4 ≤ p.bsid ∧ p.bsid ≤ 7) (hcs : p.contentSize < 256 ^ 8) (hd : p.dictID < 256 ^ 4) (rest : Bytes) :
    pHeader E (descriptorL p ++ [UInt8.ofNat ((E.hash (descriptorL p) / 256) % 256)] ++ rest) = .ok (hdrOfL p, rest) :=
  headerL_parses E p hb hcs hd rest

/-- every linked-blocks frame the model produces is accepted by the independent parser: blocks within the declared maximum, raw fallback, checksums over
    the right bytes, EndMark, content size — and **linked blocks reference at most the previous 64 KB**: the parser hands each block only the last 64 KB
    of the content before it -/
theorem produced_linked_frame_accepted_by_independent_parser (E : Env) (ok : EnvOKL E) (hashOf : Array UInt8 → Bool → Nat → Nat) (p : Prefs)
    (hb : 4 ≤ p.bsid ∧ p.bsid ≤ 7) (hcs64 : p.contentSize < 256 ^ 8) (hd32 : p.dictID < 256 ^ 4) (ops : List LOp) (hleg : LegalSizes p ops)
    (hcs : p.contentSize = 0 ∨ p.contentSize = (contentOf ops).length) :
    ∃ F, pFrame E [] F (frame E hashOf p ops) = .ok (contentOf ops, []) :=
  LZ4V.C03.linked_frame_bytes_decode_to_input E ok hashOf p hb hcs64 hd32 ops hleg hcs

end LZ4V.C07
