import LZ4V.Properties.C20
import LZ4V.Properties.C03Fun
import LZ4V.Proofs.FileRProof
import LZ4V.Proofs.CliFrameProof
import LZ4V.Proofs.FrameLinkedProof
/-!
# C20, the read side — `LZ4F_readOpen` / `LZ4F_read` return what the frame holds, whatever the read sizes

`Model/FileR.lean` mirrors `LZ4F_readOpen` (19-byte read, `LZ4F_getFrameInfo`, the left-over bytes kept in `srcBuf`) and the loop of `LZ4F_read`
(refill by `srcBufMaxSize`, `LZ4F_decompress` on what is buffered with the room that is left) over the dStage machine of `Model/FrameDS.lean`; it is
tied to the real functions on whole reading sessions (result of readOpen, every size asked and value returned, every byte; intact, truncated and
corrupted files).

* `read_session_safe`: on a file that holds one valid frame with content `D`, for ANY sequence of read sizes, no `LZ4F_read` fails and the
  concatenation of everything returned is a prefix of `D` (never a wrong byte, never a byte too many);
* `written_file_reads_back`: composed with the write side at the fast levels (`Properties/C03E2E.lean`: the file bytes produced by
  `LZ4F_writeOpen / LZ4F_write* / LZ4F_writeClose` for ANY sequence of write sizes are one frame holding exactly the written bytes): reading that file
  with any read sizes never fails and returns a prefix of what was written.

Not a theorem (decided by the correspondence on every recorded session, and supported by `every_call_makes_progress`): that the reads return ALL of `D`
(a read returns fewer bytes than asked only at the end of the file) and then 0.
-/
namespace LZ4V.C20
open LZ4V.Spec.FrameL LZ4V.Model LZ4V.Model.FrameDS LZ4V.Model.FileR

theorem validFile_of_pFrame (E : Env) (file D : Bytes) (F : Nat) (h : pFrame E [] F file = .ok (D, [])) : ValidFile E file D := by
  refine ⟨F, fun f hf => ?_⟩
  have a := (LZ4V.C08.pFrame_le_pDFrame E [] F).elim file _ h
  have b := (pDFrame_mono E [] F (f - F)).elim file _ a
  rw [Nat.add_sub_cancel' hf] at b
  exact b

/-- **any sequence of read sizes**: no read fails, and what has been returned is always a prefix of the frame content -/
theorem read_session_safe (E : Env) (hE : DecBounded E) (file D : Bytes) (hv : ValidFile E file D) (r0 : Reader) (ho : readOpen E file = .ok r0)
    (sizes : List Nat) : ∃ res, readAll E r0 sizes = .ok res ∧ res.flatten <+: D := by
  obtain ⟨res, h1, h2⟩ := readAll_ok E hE file D hv sizes r0 [] (readOpen_ok E file D r0 ho)
  exact ⟨res, h1, by simpa using h2⟩

/-- **written through the lz4file API (fast level, independent blocks, any sequence of write sizes), read back with any sequence of read sizes** -/
theorem written_file_reads_back (E : Env) (ok : FrameFast.EnvOK E) (hE : DecBounded E) (hashOf : Array UInt8 → Bool → Nat → Nat) (p : FrameFast.Prefs)
    (hb : 4 ≤ p.bsid ∧ p.bsid ≤ 7) (hcs64 : p.contentSize < 256 ^ 8) (hd32 : p.dictID < 256 ^ 4) (maxWrite : Nat) (writes : List Bytes)
    (file : Bytes) (h : FrameFast.frameOfOps E hashOf p (FrameC.writeOps maxWrite writes) = some file)
    (hcs : p.contentSize = 0 ∨ p.contentSize = writes.flatten.length)
    (r0 : Reader) (ho : readOpen E file = .ok r0) (sizes : List Nat) :
    ∃ res, readAll E r0 sizes = .ok res ∧ res.flatten <+: writes.flatten := by
  have hfed : FrameC.fed (FrameC.writeOps maxWrite writes) = writes.flatten := fed_writeOps maxWrite writes
  obtain ⟨F, hF⟩ := FrameFast.frameOfOps_parses E ok hashOf p hb hcs64 hd32 (FrameC.writeOps maxWrite writes)
    (LZ4V.Model.CliFrame.writeOps_no_begin maxWrite writes) file h (by rw [hfed]; exact hcs)
  rw [hfed] at hF
  exact read_session_safe E hE file writes.flatten (validFile_of_pFrame E file _ F hF) r0 ho sizes

/-- **the same with LINKED blocks (the default of `LZ4F_writeOpen` when the caller passes no preferences)**: a file holding the frame the linked-blocks model
    produces — for ANY schedule of block placements and history saves, on a context with any past — reads back, with any sequence of read sizes, to a
    prefix of what was written, never an error -/
theorem written_linked_file_reads_back (E : Env) (ok : LZ4V.Model.FrameLinked.EnvOKL E) (hE : DecBounded E) (hashOf : Array UInt8 → Bool → Nat → Nat)
    (p : FrameFast.Prefs) (hb : 4 ≤ p.bsid ∧ p.bsid ≤ 7) (hcs64 : p.contentSize < 256 ^ 8) (hd32 : p.dictID < 256 ^ 4)
    (S0 : LZ4V.Model.FastX.XState) (hI0 : LZ4V.Model.FastX.Inv S0 []) (hnd0 : S0.dctx = none) (ops : List LZ4V.Model.FrameLinked.LOp)
    (hleg : LZ4V.Model.FrameLinked.LegalSizes p ops) (hcs : p.contentSize = 0 ∨ p.contentSize = (LZ4V.Model.FrameLinked.contentOf ops).length)
    (r0 : Reader) (ho : readOpen E (LZ4V.Model.FrameLinked.frameFrom E hashOf p S0 ops) = .ok r0) (sizes : List Nat) :
    ∃ res, readAll E r0 sizes = .ok res ∧ res.flatten <+: LZ4V.Model.FrameLinked.contentOf ops :=
  read_session_safe E hE _ _ (validFile_of_pFrame E _ _ _ (LZ4V.Model.FrameLinked.frameFrom_parses E ok hashOf p hb hcs64 hd32 S0 hI0 hnd0 ops hleg hcs)) r0 ho sizes

end LZ4V.C20
