import LZ4V.Properties.C05
import LZ4V.Proofs.DecodeFun10
/-!
# C05, the refinement — the decoder model computes the block specification, in both directions

`Model/Decode.lean` is the label-by-label model of `LZ4_decompress_generic` (both loops, the three dictionary directives, partial
decoding, every wild copy, the `inc32table`/`dec64table` trick) whose memory safety is C02.  `Proofs/DecodeFun1..10.lean` relate it to
the specification decoder `Spec.Block.decode`, one `pstep` (one sequence) per loop iteration:

* **forward** (`decompress_safe_decodes_valid_block`, `…_usingDict_…`): a block the specification decodes to `D` and whose parse obeys
  the end-of-block rules of the format document (`endConditions`: last 5 bytes literals, last match at least 12 bytes before the end),
  given any capacity ≥ |D| and any initial destination content, is decoded to exactly `D`, return value |D| — through the fast loop and
  the safe loop alike.  The end-of-block rules are exactly what makes the decoder's parsing restrictions (`MFLIMIT`, `LASTLITERALS`,
  `MATCH_SAFEGUARD_DISTANCE`, the shortcut margins) harmless: `vtail_of_valid`.
* **converse** (`decompress_safe_success_is_spec`, `…_usingDict_…`): whenever a safe decoder returns `n ≥ 0` on ARBITRARY input, the
  specification decodes that input to exactly the `n` bytes written — unless the format-level walk over the sequences meets an offset
  of 0 (`HasZero`), which the unchanged code accepts (known finding F7a, witness `converse_fails_on_offset_zero`).
-/
namespace LZ4V.C05
open LZ4V.Spec.Block LZ4V.Model LZ4V.Model.Decode

/-- the part of the dictionary the decoder can reference: all of it, except that a dictionary placed right in front of the
    destination is cut to its last 64 KB -/
def visibleDict (dict : Bytes) (pl : Placement) : List UInt8 :=
  match pl with
  | .contiguous => if dict.size ≥ 65536 - 1 then dict.toList.drop (dict.size - 65536) else dict.toList
  | .external => dict.toList

theorem usingDict_wf2 (fastLoop partialD : Bool) (src dict dst : Bytes) (pl : Placement) :
    WF2 (usingDictEnv fastLoop partialD src dict pl) (((if (usingDictEnv fastLoop partialD src dict pl).dst0 = 0 then #[] else dict) ++ dst).size) := by
  refine ⟨LZ4V.C02.usingDictEnv_wf fastLoop partialD src dict dst pl, ?_⟩
  · unfold usingDictEnv
    by_cases h0 : dict.size = 0
    · simp only [h0, if_true]; intro h; cases h
    · simp only [h0, if_false]
      cases pl with
      | contiguous =>
        by_cases h64 : dict.size ≥ 65536 - 1
        · simp only [h64, if_true]; intro _; omega
        · simp only [h64, if_false]; intro h; cases h
      | external => intro h; cases h

theorem usingDictEnv_src (fastLoop partialD : Bool) (src dict : Bytes) (pl : Placement) : (usingDictEnv fastLoop partialD src dict pl).src = src := by
  unfold usingDictEnv
  by_cases h0 : dict.size = 0
  · simp only [h0, if_true]
  · simp only [h0, if_false]
    cases pl with
    | contiguous => by_cases h64 : dict.size ≥ 65536 - 1 <;> simp only [h64, if_true, if_false]
    | external => rfl

theorem usingDictEnv_partial (fastLoop partialD : Bool) (src dict : Bytes) (pl : Placement) :
    (usingDictEnv fastLoop partialD src dict pl).partialD = partialD := by
  unfold usingDictEnv
  by_cases h0 : dict.size = 0
  · simp only [h0, if_true]
  · simp only [h0, if_false]
    cases pl with
    | contiguous => by_cases h64 : dict.size ≥ 65536 - 1 <;> simp only [h64, if_true, if_false]
    | external => rfl

theorem extract_append_dict (dict dst : Bytes) (a : Nat) :
    ((dict ++ dst).extract a dict.size).toList = dict.toList.drop a := by
  apply List.ext_getElem?
  intro i
  simp only [Array.getElem?_toList, List.getElem?_drop]
  rw [Array.getElem?_extract]
  by_cases h : i < dict.size - a
  · rw [if_pos (by simpa using h), Array.getElem?_append_left (by omega)]
  · rw [if_neg (by simpa using h)]
    rw [Array.getElem?_eq_none (by omega)]

theorem histOf_usingDict (fastLoop partialD : Bool) (src dict dst : Bytes) (pl : Placement) :
    histOf (usingDictEnv fastLoop partialD src dict pl) ((if (usingDictEnv fastLoop partialD src dict pl).dst0 = 0 then #[] else dict) ++ dst) =
      visibleDict dict pl := by
  unfold histOf usingDictEnv visibleDict
  by_cases h0 : dict.size = 0
  · have : dict.toList = [] := by apply List.eq_nil_of_length_eq_zero; simpa using h0
    simp only [h0, if_true, this]
    have e : ((#[] : Bytes) ++ dst).extract (Int.toNat 0) 0 = #[] := by simp
    cases pl with
    | contiguous => dsimp only; rw [if_neg (by omega)]; simp
    | external => simp
  · simp only [h0, if_false]
    cases pl with
    | contiguous =>
      by_cases h64 : dict.size ≥ 65536 - 1
      · simp only [h64, if_true, h0, if_false]
        rw [List.nil_append, extract_append_dict, show ((dict.size : Int) - 65536).toNat = dict.size - 65536 by omega]
      · simp only [h64, if_false, h0]
        rw [List.nil_append, extract_append_dict]
        simp
    | external => simp

theorem visibleDict_suffix (dict : Bytes) (pl : Placement) : ∃ pre, dict.toList = pre ++ visibleDict dict pl := by
  unfold visibleDict
  cases pl with
  | contiguous =>
    dsimp only
    split
    · exact ⟨dict.toList.take (dict.size - 65536), (List.take_append_drop _ _).symm⟩
    · exact ⟨[], rfl⟩
  | external => exact ⟨[], rfl⟩

/-- the destination part of the buffer, read back -/
theorem dst_part (pre _dst : Bytes) (b : Bytes) (n : Nat) (hn : pre.size + n ≤ b.size) :
    ((b.extract pre.size b.size).toList.take n) = (b.extract pre.size (pre.size + n)).toList := by
  apply List.ext_getElem?
  intro i
  by_cases hi : i < n
  · rw [List.getElem?_take_of_lt hi]
    simp only [Array.getElem?_toList]
    rw [Array.getElem?_extract, Array.getElem?_extract, if_pos (by omega), if_pos (by omega)]
  · rw [List.getElem?_eq_none (by simp; omega), List.getElem?_eq_none (by simp; omega)]

/-- **`LZ4_decompress_safe_usingDict` (prefix or external dictionary, any size), converse**: success means the specification's content -/
theorem decompress_safe_usingDict_conv (fastLoop : Bool) (src dstInit dict : Bytes) (pl : Placement) (r : Result)
    (h : decompress_safe_usingDict fastLoop src dstInit dict pl = .ok r) (hret : 0 ≤ r.ret) :
    decode dict.toList src.toList = some (r.buf.toList.take r.ret.toNat) ∨ (∃ f, HasZero f src.toList) := by
  unfold decompress_safe_usingDict at h
  dsimp only at h
  have hw2 := usingDict_wf2 fastLoop false src dict dstInit pl
  have hps := LZ4V.C02.usingDictEnv_prefix_size fastLoop false src dict pl
  cases hg : generic (usingDictEnv fastLoop false src dict pl) ((if (usingDictEnv fastLoop false src dict pl).dst0 = 0 then #[] else dict) ++ dstInit) with
  | error e => rw [hg] at h; cases h
  | ok r0 =>
    rw [hg] at h
    simp only [Except.ok.injEq] at h
    subst h
    dsimp only at hret ⊢
    have hsrc := usingDictEnv_src fastLoop false src dict pl
    obtain ⟨r', hr', hr2, hr3⟩ := generic_total _ _ hw2.wf
    rw [hg] at hr'
    simp only [Except.ok.injEq] at hr'
    subst hr'
    rcases generic_conv _ _ hw2 (usingDictEnv_partial fastLoop false src dict pl) r0 hg hret with hc | hz
    · left
      rw [histOf_usingDict, hsrc] at hc
      obtain ⟨pre, hpre⟩ := visibleDict_suffix dict pl
      rw [hpre, decode_history_superset pre _ _ _ hc, ← hps]
      congr 1
      rw [dst_part _ dstInit r0.buf r0.ret.toNat (by
        rw [hr2]; simp only [Array.size_append] at hr3 ⊢; omega)]
    · right
      rw [hsrc] at hz
      exact hz

/-- the decoder run behind both `_usingDict` entry points, on a format-valid block (`cap` = the part of `dst` handed to the decoder) -/
theorem usingDict_generic_fwd (fastLoop partialD : Bool) (blk : List UInt8) (dst dict : Bytes) (pl : Placement) (D : List UInt8)
    (seqs : List Seq) (last : List UInt8) (hdec : decode (visibleDict dict pl) blk = some D) (hparse : parse blk = some (seqs, last))
    (hend : endConditions seqs last = true) (hroom : partialD = true ∨ D.length ≤ dst.size) (hcap : 0 < dst.size) :
    ∃ r, generic (usingDictEnv fastLoop partialD blk.toArray dict pl)
            ((if (usingDictEnv fastLoop partialD blk.toArray dict pl).dst0 = 0 then #[] else dict) ++ dst) = .ok r ∧
      0 ≤ r.ret ∧ r.ret.toNat ≤ dst.size ∧
      r.buf.size = (usingDictEnv fastLoop partialD blk.toArray dict pl).dst0 + dst.size ∧
      (r.buf.extract (usingDictEnv fastLoop partialD blk.toArray dict pl).dst0 r.buf.size).toList.take r.ret.toNat = D.take r.ret.toNat ∧
      (r.ret.toNat = D.length ∨ (partialD = true ∧ r.ret.toNat = dst.size ∧ dst.size ≤ D.length)) := by
  have hw2 := usingDict_wf2 fastLoop partialD blk.toArray dict dst pl
  have hps := LZ4V.C02.usingDictEnv_prefix_size fastLoop partialD blk.toArray dict pl
  have hsrc := usingDictEnv_src fastLoop partialD blk.toArray dict pl
  have hpd := usingDictEnv_partial fastLoop partialD blk.toArray dict pl
  have hh := histOf_usingDict fastLoop partialD blk.toArray dict dst pl
  have hbs : ((if (usingDictEnv fastLoop partialD blk.toArray dict pl).dst0 = 0 then #[] else dict) ++ dst).size =
      (usingDictEnv fastLoop partialD blk.toArray dict pl).dst0 + dst.size := by rw [Array.size_append, hps]
  obtain ⟨fin, hda, hdrop, hfl, hvt⟩ := valid_block_vtail (usingDictEnv fastLoop partialD blk.toArray dict pl)
    (((if (usingDictEnv fastLoop partialD blk.toArray dict pl).dst0 = 0 then #[] else dict) ++ dst).size) (visibleDict dict pl) blk D seqs last
    (usingDictEnv fastLoop partialD blk.toArray dict pl).dst0 hdec hparse hend (by
      rw [hpd, hbs]
      rcases hroom with h | h
      · exact Or.inl h
      · right; omega)
  obtain ⟨r, h1, h2, h3, h4, h5, h6⟩ := generic_fwd (usingDictEnv fastLoop partialD blk.toArray dict pl) _ hw2
    (by rw [hbs]; omega) (blk.length + 1) fin (by rw [hh, hsrc]; simpa using hvt) (by rw [hh, hsrc]; simpa using hda)
  rw [hh] at h5 h6
  rw [hdrop] at h5
  rw [hbs] at h3 h4
  rw [hpd, hbs] at h6
  refine ⟨r, h1, h2, by omega, h3, ?_, ?_⟩
  · have := dst_part (if (usingDictEnv fastLoop partialD blk.toArray dict pl).dst0 = 0 then #[] else dict) dst r.buf r.ret.toNat
      (by rw [hps, h3]; omega)
    rw [hps] at this
    rw [this, h5]
  · rcases h6 with h6 | ⟨hp, h6, h7⟩
    · left; omega
    · right; exact ⟨hp, by omega, by omega⟩

/-- **`LZ4_decompress_safe_usingDict`, forward**: a block that is valid under the format document (the specification decodes it against
    the visible dictionary, end-of-block rules hold) is decoded to exactly its content, for any capacity that holds it -/
theorem decompress_safe_usingDict_fwd (fastLoop : Bool) (blk : List UInt8) (dstInit dict : Bytes) (pl : Placement) (D : List UInt8)
    (seqs : List Seq) (last : List UInt8) (hdec : decode (visibleDict dict pl) blk = some D) (hparse : parse blk = some (seqs, last))
    (hend : endConditions seqs last = true) (hroom : D.length ≤ dstInit.size) (hcap : 0 < dstInit.size) :
    ∃ r, decompress_safe_usingDict fastLoop blk.toArray dstInit dict pl = .ok r ∧ r.ret = D.length ∧ r.buf.toList.take D.length = D := by
  obtain ⟨r, h1, h2, h3, h4, h5, h6⟩ := usingDict_generic_fwd fastLoop false blk dstInit dict pl D seqs last hdec hparse hend (Or.inr hroom) hcap
  unfold decompress_safe_usingDict
  dsimp only
  rw [h1]
  have hlen : r.ret.toNat = D.length := by
    rcases h6 with h6 | ⟨hp, _⟩
    · exact h6
    · cases hp
  refine ⟨_, rfl, by dsimp only; omega, ?_⟩
  dsimp only
  rw [← hlen, h5, hlen, List.take_length]

/-- **`LZ4_decompress_safe_partial_usingDict`, forward** (C16 with a dictionary) -/
theorem decompress_safe_partial_usingDict_fwd (fastLoop : Bool) (blk : List UInt8) (dstInit dict : Bytes) (pl : Placement) (target : Nat)
    (D : List UInt8) (seqs : List Seq) (last : List UInt8) (hdec : decode (visibleDict dict pl) blk = some D)
    (hparse : parse blk = some (seqs, last)) (hend : endConditions seqs last = true) (hroom : min target D.length ≤ dstInit.size) :
    ∃ r, decompress_safe_partial_usingDict fastLoop blk.toArray dstInit dict pl target = .ok r ∧ r.ret = (min target D.length : Nat) ∧
      r.buf.toList.take (min target D.length) = D.take (min target D.length) := by
  unfold decompress_safe_partial_usingDict
  dsimp only
  have hcsz : (dstInit.extract 0 (min target dstInit.size)).size = min target dstInit.size := by simp
  by_cases hc0 : min target dstInit.size = 0
  · have hg : generic (usingDictEnv fastLoop true blk.toArray dict pl)
        ((if (usingDictEnv fastLoop true blk.toArray dict pl).dst0 = 0 then #[] else dict) ++ dstInit.extract 0 (min target dstInit.size)) =
        .ok ⟨0, (if (usingDictEnv fastLoop true blk.toArray dict pl).dst0 = 0 then #[] else dict) ++ dstInit.extract 0 (min target dstInit.size)⟩ := by
      have hps := LZ4V.C02.usingDictEnv_prefix_size fastLoop true blk.toArray dict pl
      unfold generic
      dsimp only
      rw [if_pos (by rw [Array.size_append, hps, hcsz]; omega), usingDictEnv_partial]
      rfl
    rw [hg]
    have hm0 : min target D.length = 0 := by omega
    exact ⟨_, rfl, by dsimp only; omega, by rw [hm0]; simp⟩
  · obtain ⟨r, h1, h2, h3, h4, h5, h6⟩ := usingDict_generic_fwd fastLoop true blk (dstInit.extract 0 (min target dstInit.size)) dict pl D seqs last
      hdec hparse hend (Or.inl rfl) (by rw [hcsz]; omega)
    rw [h1]
    rw [hcsz] at h3 h4 h6
    have hret : r.ret.toNat = min target D.length := by
      rcases h6 with h6 | ⟨_, h6, h7⟩
      · omega
      · omega
    refine ⟨_, rfl, by dsimp only; omega, ?_⟩
    dsimp only
    rw [← hret, Array.toList_append, List.take_append_of_le_length (by simp only [Array.length_toList, Array.size_extract]; omega), h5]

/-- **forward, `LZ4_decompress_safe`** -/
theorem decompress_safe_decodes_valid_block (fastLoop : Bool) (blk : List UInt8) (dstInit : Bytes) (D : List UInt8) (seqs : List Seq) (last : List UInt8)
    (hdec : decode [] blk = some D) (hparse : parse blk = some (seqs, last)) (hend : endConditions seqs last = true)
    (hroom : D.length ≤ dstInit.size) (hcap : 0 < dstInit.size) :
    ∃ r, decompress_safe fastLoop blk.toArray dstInit = .ok r ∧ r.ret = D.length ∧ r.buf.size = dstInit.size ∧ r.buf.toList.take D.length = D :=
  decompress_safe_fwd fastLoop blk dstInit D seqs last hdec hparse hend hroom hcap

/-- **converse, `LZ4_decompress_safe`** -/
theorem decompress_safe_success_is_spec (fastLoop : Bool) (src dstInit : Bytes) (r : Result) (h : decompress_safe fastLoop src dstInit = .ok r)
    (hret : 0 ≤ r.ret) : decode [] src.toList = some (r.buf.toList.take r.ret.toNat) ∨ (∃ f, HasZero f src.toList) :=
  decompress_safe_conv fastLoop src dstInit r h hret

/-- a zero-capacity destination: only the one-byte block `00` is accepted (`[0x05]`, which the specification also reads as an empty
    block, is rejected here although it is accepted with any capacity ≥ 1: the reason the forward theorems ask for `0 < capacity`) -/
theorem zero_capacity (fastLoop : Bool) (src : Bytes) :
    decompress_safe fastLoop src #[] = .ok ⟨if src.size = 1 ∧ src[0]! = 0 then 0 else -1, #[]⟩ := by
  unfold decompress_safe generic
  simp only [Array.size_empty, Nat.sub_self, if_true, Bool.false_eq_true, if_false]
  split <;> rfl

/-! ## non-vacuity: a block that meets every hypothesis of the forward theorems, run through them -/

/-- `14 41 01 00 50 76 77 78 79 7a` : literal `A`, match of 8 at offset 1, last literals `vwxyz` (14 bytes of content; the match starts
    at 1 ≤ 14 − 12 and 5 literals end the block) -/
def sampleBlock : List UInt8 := [0x14, 0x41, 0x01, 0x00, 0x50, 0x76, 0x77, 0x78, 0x79, 0x7a]
def sampleContent : List UInt8 := [0x41, 0x41, 0x41, 0x41, 0x41, 0x41, 0x41, 0x41, 0x41, 0x76, 0x77, 0x78, 0x79, 0x7a]

example : decode [] sampleBlock = some sampleContent := by decide
example : ∃ seqs last, parse sampleBlock = some (seqs, last) ∧ endConditions seqs last = true :=
  ⟨[⟨[0x41], 1, 8⟩], [0x76, 0x77, 0x78, 0x79, 0x7a], by decide, by decide⟩

/-- the theorem applied: for EVERY initial content of a 20-byte destination and both loop settings the model returns 14 and the content -/
example (fastLoop : Bool) (dstInit : Bytes) (h : dstInit.size = 20) :
    ∃ r, decompress_safe fastLoop sampleBlock.toArray dstInit = .ok r ∧ r.ret = 14 ∧ r.buf.toList.take 14 = sampleContent := by
  obtain ⟨r, h1, h2, _, h4⟩ := decompress_safe_decodes_valid_block fastLoop sampleBlock dstInit sampleContent [⟨[0x41], 1, 8⟩] [0x76, 0x77, 0x78, 0x79, 0x7a]
    (by decide) (by decide) (by decide) (by rw [h]; decide) (by omega)
  exact ⟨r, h1, h2, h4⟩

end LZ4V.C05
