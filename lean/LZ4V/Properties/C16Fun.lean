import LZ4V.Properties.C16
import LZ4V.Properties.C05Fun
/-!
# C16, the exact-prefix half — partial decoding returns exactly the requested prefix

The simulation of `Proofs/DecodeFun*.lean` carries partial decoding (`partial_decode = 1`) as well: the clamped last literals, the
continuation into the match of the same sequence, the clamped in-buffer and external-dictionary matches, and the iteration that a
clamped external-dictionary match still runs before the loop leaves through `op == oend` (`safeIter_stopped`).
For every format-valid block with content `D` (the specification decodes it, end-of-block rules hold), every target, every capacity
that holds `min target |D|` bytes, every initial destination content, both loop settings:
the call returns `min target |D|` and the destination starts with exactly that prefix of `D`.

Not covered by a theorem (decided by the correspondence only): the second sentence of the property — a declared source size larger
than the block (trailing bytes).
-/
namespace LZ4V.C16
open LZ4V.Spec.Block LZ4V.Model LZ4V.Model.Decode

/-- **`LZ4_decompress_safe_partial` returns exactly the requested prefix** -/
theorem partial_returns_exact_prefix (fastLoop : Bool) (blk : List UInt8) (dstInit : Bytes) (target : Nat) (D : List UInt8)
    (seqs : List Seq) (last : List UInt8) (hdec : decode [] blk = some D) (hparse : parse blk = some (seqs, last))
    (hend : endConditions seqs last = true) (hroom : min target D.length ≤ dstInit.size) :
    ∃ r, decompress_safe_partial fastLoop blk.toArray dstInit target = .ok r ∧ r.ret = (min target D.length : Nat) ∧
      r.buf.size = dstInit.size ∧ r.buf.toList.take (min target D.length) = D.take (min target D.length) :=
  decompress_safe_partial_fwd fastLoop blk dstInit target D seqs last hdec hparse hend hroom

/-- **`LZ4_decompress_safe_partial_usingDict`**, dictionary in front of the destination or elsewhere, any size -/
theorem partial_usingDict_returns_exact_prefix (fastLoop : Bool) (blk : List UInt8) (dstInit dict : Bytes) (pl : Placement) (target : Nat)
    (D : List UInt8) (seqs : List Seq) (last : List UInt8) (hdec : decode (LZ4V.C05.visibleDict dict pl) blk = some D)
    (hparse : parse blk = some (seqs, last)) (hend : endConditions seqs last = true) (hroom : min target D.length ≤ dstInit.size) :
    ∃ r, decompress_safe_partial_usingDict fastLoop blk.toArray dstInit dict pl target = .ok r ∧ r.ret = (min target D.length : Nat) ∧
      r.buf.toList.take (min target D.length) = D.take (min target D.length) :=
  LZ4V.C05.decompress_safe_partial_usingDict_fwd fastLoop blk dstInit dict pl target D seqs last hdec hparse hend hroom

/-- the theorem applied to the sample block of C05: every target 0..20, any 20-byte destination -/
example (fastLoop : Bool) (dstInit : Bytes) (h : dstInit.size = 20) (target : Nat) :
    ∃ r, decompress_safe_partial fastLoop LZ4V.C05.sampleBlock.toArray dstInit target = .ok r ∧ r.ret = (min target 14 : Nat) ∧
      r.buf.toList.take (min target 14) = LZ4V.C05.sampleContent.take (min target 14) := by
  obtain ⟨r, h1, h2, _, h4⟩ := partial_returns_exact_prefix fastLoop LZ4V.C05.sampleBlock dstInit target LZ4V.C05.sampleContent
    [⟨[0x41], 1, 8⟩] [0x76, 0x77, 0x78, 0x79, 0x7a] (by decide) (by decide) (by decide)
    (by rw [h]; have : LZ4V.C05.sampleContent.length = 14 := by decide
        omega)
  have hl : LZ4V.C05.sampleContent.length = 14 := by decide
  rw [hl] at h2 h4
  exact ⟨r, h1, h2, h4⟩

end LZ4V.C16
