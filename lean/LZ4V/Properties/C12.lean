import LZ4V.Proofs.BlockHub
/-!
# C12 — dictionary compression round-trips (specification part)
-/
namespace LZ4V.C12
open LZ4V.Spec.Block

/-- a block compressed against a dictionary decodes when the decoder is given the same dictionary bytes, wherever they
    lie: the specification only sees the byte list `dict` in front of the output -/
theorem dict_block_roundtrip (dict : List UInt8) (seqs : List Seq) (last input : List UInt8)
    (hwf : ∀ s ∈ seqs, 4 ≤ s.ml ∧ s.off < 65536) (hv : ValidParse dict seqs last (dict ++ input)) :
    decode dict (serialize seqs last) = some input := roundtrip dict seqs last input hwf hv

/-- only the last 64 KB matter: bytes in front of the part of the dictionary the block uses are irrelevant -/
theorem dict_prefix_irrelevant (front used blk D : List UInt8) (h : decode used blk = some D) :
    decode (front ++ used) blk = some D := decode_history_superset front used blk D h

end LZ4V.C12
