import LZ4V.Proofs.BlockHub
import LZ4V.Proofs.FastRProof
import LZ4V.Proofs.FastSProof
import LZ4V.Proofs.FastXProof
import LZ4V.HC.HC5
/-!
# C18 — compression contexts stay correct after any history of reuse (specification part)
-/
namespace LZ4V.C18
open LZ4V.Spec.Block

/-- the observable meaning of "no stale match": the block decodes against its DECLARED history alone.  If it does,
    no sequence can have referred to data of an earlier, unrelated input: the specification decoder has no access to it. -/
theorem decodes_against_declared_history_only (hist blk D : List UInt8) (h : decode hist blk = some D) :
    ∃ seqs last, parse blk = some (seqs, last) ∧ exec hist seqs last = some (hist ++ D) := by
  unfold decode at h
  rw [decodeAux_eq_parse_exec] at h
  unfold parse
  cases hp : parseAux (blk.length + 1) blk with
  | none => rw [hp] at h; simp at h
  | some p =>
    obtain ⟨seqs, last⟩ := p
    rw [hp] at h
    simp only [Option.bind_some, Option.map_eq_some_iff] at h
    obtain ⟨o, ho, hd⟩ := h
    refine ⟨seqs, last, rfl, ?_⟩
    rw [ho]
    -- `exec` only appends to `hist`
    have hpre : ∀ (out : List UInt8) (ss : List Seq) (l o : List UInt8), exec out ss l = some o → ∃ t, o = out ++ t := by
      intro out ss
      induction ss generalizing out with
      | nil => intro l o h; simp [exec] at h; exact ⟨l, h.symm⟩
      | cons s rest ih =>
        intro l o h
        simp only [exec] at h
        cases hc : copyMatch (out ++ s.lits) s.off s.ml with
        | none => rw [hc] at h; simp at h
        | some o2 =>
          rw [hc] at h
          obtain ⟨t, ht⟩ := ih o2 l o h
          have hcm : ∀ (a : List UInt8) (n : Nat) (r : List UInt8), copyMatch a s.off n = some r → ∃ u, r = a ++ u := by
            intro a n
            induction n generalizing a with
            | zero => intro r h; simp [copyMatch] at h; exact ⟨[], by simp [h]⟩
            | succ n ihn =>
              intro r h
              simp only [copyMatch] at h
              split at h
              · split at h
                · rename_i b _
                  obtain ⟨u, hu⟩ := ihn _ _ h
                  exact ⟨b :: u, by rw [hu]; simp⟩
                · simp at h
              · simp at h
          obtain ⟨u, hu⟩ := hcm _ _ _ hc
          exact ⟨s.lits ++ u ++ t, by rw [ht, hu]; simp [List.append_assoc]⟩
    obtain ⟨t, ht⟩ := hpre hist seqs last o ho
    rw [ht] at hd ⊢
    simp at hd
    rw [hd]

/-- **A reused state never leaks an earlier input into a later block** (model `Model/FastR.lean` of
    `LZ4_compress_fast_extState_fastReset` on ONE state that survives between calls: hash table, `currentOffset`, table type,
    `LZ4_prepareTable`, `dictSmall`, 16-bit table entries).  For EVERY history of calls — any inputs, sizes, capacities,
    accelerations, in any order — and every hash function, each block that is returned decodes, with NO history, to the input of its
    own call.  The executable instance is byte-identical to the real function on every recorded history. -/
theorem reused_state_blocks_decode_alone (hashOf : Array UInt8 → Bool → Nat → Nat) (calls : List (Array UInt8 × Int × Nat × Nat))
    (k : Nat) (hk : k < calls.length) (blk : List UInt8)
    (h : (LZ4V.Model.FastR.history hashOf {} calls)[k]? = some (some blk)) : decode [] blk = some (calls[k]).1.toList :=
  LZ4V.Model.FastR.history_spec hashOf calls {} LZ4V.Model.FastR.J_init k hk blk h

/-- the invariant behind it, for any state satisfying it (not only a fresh one): every table entry is an index not above
    `currentOffset`; one call re-establishes it and returns only blocks that decode alone -/
theorem reused_state_invariant (hashOf : Array UInt8 → Bool → Nat → Nat) (S : LZ4V.Model.FastR.RState) (src : Array UInt8)
    (acceleration : Int) (cap bound : Nat) (hJ : LZ4V.Model.FastR.J S) :
    LZ4V.Model.FastR.J (LZ4V.Model.FastR.call hashOf S src acceleration cap bound).1 ∧
    (∀ blk, (LZ4V.Model.FastR.call hashOf S src acceleration cap bound).2 = some blk → decode [] blk = some src.toList) :=
  LZ4V.Model.FastR.call_spec hashOf S src acceleration cap bound hJ

/-- **A streaming session on a reused stream never refers to an earlier life of the stream** (model `Model/FastS.lean` of
    `LZ4_compress_fast_continue` on contiguous blocks).  Whatever the stream did before `LZ4_resetStream_fast` — the state it leaves is ANY table of
    indexes not above `currentOffset`, any `currentOffset`, no dictionary — every block of the session that follows decodes against the bytes
    of THIS session alone.  The judge checks the hypothesis on the real state dumped after every real reset. -/
theorem reused_stream_session_decodes_alone (hashOf : Array UInt8 → Bool → Nat → Nat) (tbl : Array Nat) (currentOffset : Nat)
    (htbl : ∀ i, tbl.getD i 0 ≤ currentOffset) (calls : List (Array UInt8 × Int × Nat))
    (k : Nat) (hk : k < calls.length) (blk : List UInt8)
    (h : (LZ4V.Model.FastS.session hashOf { tbl := tbl, currentOffset := currentOffset, dictSize := 0, mem := #[] } calls)[k]? = some (some blk)) :
    decode (LZ4V.Model.FastS.prior calls k) blk = some (calls[k]).1.toList := by
  have := LZ4V.Model.FastS.session_spec hashOf calls { tbl := tbl, currentOffset := currentOffset, dictSize := 0, mem := #[] }
    ⟨htbl, Nat.zero_le _, Nat.zero_le _⟩ k hk blk h
  simpa using this

open LZ4V.Model.FastX in
/-- **any history of streaming reuse** (Model/FastX.lean): whatever the stream did before — blocks placed anywhere, dictionary loads and saves,
    failed-free lives ended by `LZ4_resetStream_fast` any number of times — a block compressed after a reset decodes against the bytes compressed
    SINCE that reset alone (`histAt` restarts from nothing at every reset): nothing of an earlier life is ever referenced. -/
theorem stream_reuse_decodes_since_reset_only (hashOf : Array UInt8 → Bool → Nat → Nat) (ops : List Op) (k addr : Nat) (data : Array UInt8) (acc : Int) (cap : Nat)
    (blk : List UInt8) (hop : ops[k]? = some (.compress addr data acc cap)) (h : (run hashOf {} ops)[k]? = some (.block (some blk))) :
    decode (histAt [] ops k) blk = some data.toList :=
  (run_parsed hashOf ops {} [] Inv_init k addr data acc cap blk hop h [] _ rfl (Or.inl rfl)).decode

open LZ4V.Model.FastX in
/-- the history restarts at a reset: whatever preceded it -/
theorem history_restarts_at_reset (H : List UInt8) (before after : List Op) :
    histAt H (before ++ .reset :: after) (before.length + 1) = [] := by
  induction before generalizing H with
  | nil => simp [histAt, hist]
  | cons b bs ih => simpa [histAt] using ih (hist H b)

/-- **reused HC contexts at the hash-chain levels**: the parser keeps no state of its own between calls; whatever an earlier life left in the tables only
    shows in the finders' answers.  So a block compressed on a context with ANY past decodes against its declared history as soon as the finders'
    answers are byte-verified matches inside `hist ++ block` — the contract that the judge checks on every answer the real finders give on contexts reused
    through `LZ4_resetStreamHC_fast` and `LZ4_compress_HC_extStateHC_fastReset` (and, for a context driven beyond 1 GB, by decoding) -/
theorem hc_reused_context_block_decodes (hist block : List UInt8) (o : HC.Oracle) (hO : HC.OracleOK (hist ++ block) o) (fuel : Nat) (blk : List UInt8)
    (h : HC.compressH o hist block fuel = some blk) : decode hist blk = some block :=
  HC.compressH_decodes hist block o hO fuel blk h

end LZ4V.C18
