import LZ4V.Proofs.BlockHub
import LZ4V.Proofs.FastMain
/-!
# C01 — block compression is lossless

Property theorems only (helper lemmas live in `LZ4V/Proofs`).
-/
namespace LZ4V.C01
open LZ4V.Spec.Block

/-- Whatever a compressor does: if the bytes it emitted are the serialisation of a parse that is valid for the
    input (every match byte-verified at its offset, field ranges legal), the specification decoder returns the input.
    No bound on sizes, number of sequences, or history. -/
theorem lossless_of_valid_parse (hist : List UInt8) (seqs : List Seq) (last input : List UInt8)
    (hwf : ∀ s ∈ seqs, 4 ≤ s.ml ∧ s.off < 65536) (hv : ValidParse hist seqs last (hist ++ input)) :
    decode hist (serialize seqs last) = some input :=
  roundtrip hist seqs last input hwf hv

/-- non-vacuity: a concrete parse with an overlapping match (offset 1) is valid for its input -/
example : ValidParse [] [⟨[97], 1, 4⟩] [98, 99, 100, 101, 102] [97, 97, 97, 97, 97, 98, 99, 100, 101, 102] := by
  refine ⟨[97, 97, 97, 97], rfl, by decide, by decide, ?_, rfl⟩
  intro k hk
  have : k < 4 := hk
  match k, this with
  | 0, _ => rfl
  | 1, _ => rfl
  | 2, _ => rfl
  | 3, _ => rfl

/-- **The fast compressor is lossless** (model of `LZ4_compress_generic_validated`, single segment, fresh state, tables
    byU16/byU32, notLimited/limitedOutput, any acceleration): for EVERY input, EVERY hash function and table size, every
    block it returns is mapped back to the input by the specification decoder.  Correctness does not depend on what the
    hash table contains, only on the checks the code makes on a candidate (earlier position, distance, 4 equal bytes). -/
theorem fast_compressor_lossless_any_hash (P : LZ4V.Model.Fast.Params) (src : Array UInt8) (tableSize : Nat)
    (hb : P.byU16 = true → src.size < 65547) (ha : 1 ≤ P.accel) (blk : List UInt8)
    (h : LZ4V.Model.Fast.compress P src tableSize = some blk) : decode [] blk = some src.toList :=
  LZ4V.Model.Fast.compress_lossless P src tableSize hb ha blk h

/-- the instance the judge executes next to `LZ4_compress_default` / `LZ4_compress_fast` / `LZ4_compress_fast_extState`
    (regenerated `LZ4_hash4`/`LZ4_hash5`, byte-identical output on every recorded call) -/
theorem fast_compressor_lossless (src : Array UInt8) (acceleration : Int) (cap bound : Nat) (blk : List UInt8)
    (h : LZ4V.Model.Fast.compressFast src acceleration cap bound = some blk) : decode [] blk = some src.toList :=
  LZ4V.Model.Fast.compressFast_lossless src acceleration cap bound blk h

end LZ4V.C01
