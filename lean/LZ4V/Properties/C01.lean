import LZ4V.Proofs.BlockHub
/-!
# C01 — block compression is lossless

Property theorems only (helper lemmas live in `LZ4V/Proofs`).
-/
namespace LZ4V.C01
open LZ4V.Spec.Block

/-- Whatever a compressor does: if the bytes it emitted are the serialisation of a parse that is valid for the
    input (every match byte-verified at its offset, field ranges legal), the specification decoder returns the input.
    No bound on sizes, number of sequences, or history. -/
theorem lossless_of_valid_parse (hist : List UInt8) (seqs : List Seq) (last input : List UInt8)
    (hwf : ∀ s ∈ seqs, 4 ≤ s.ml ∧ s.off < 65536) (hv : ValidParse hist seqs last (hist ++ input)) :
    decode hist (serialize seqs last) = some input :=
  roundtrip hist seqs last input hwf hv

/-- non-vacuity: a concrete parse with an overlapping match (offset 1) is valid for its input -/
example : ValidParse [] [⟨[97], 1, 4⟩] [98, 99, 100, 101, 102] [97, 97, 97, 97, 97, 98, 99, 100, 101, 102] := by
  refine ⟨[97, 97, 97, 97], rfl, by decide, by decide, ?_, rfl⟩
  intro k hk
  have : k < 4 := hk
  match k, this with
  | 0, _ => rfl
  | 1, _ => rfl
  | 2, _ => rfl
  | 3, _ => rfl

end LZ4V.C01
