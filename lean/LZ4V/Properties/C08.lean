import LZ4V.Spec.Frame
/-! # C08 — property theorems (in progress) -/
namespace LZ4V.C08
end LZ4V.C08
