import LZ4V.Proofs.FrameDProof
import LZ4V.Proofs.StreamLProof
/-!
# C08 — frame decoding: header acceptance, no false success

* **Header acceptance = specification, exactly.**  `Model/FrameD.lean` mirrors `LZ4F_decodeHeader` statement by statement
  (the C's shifts and masks, bytes read by index, `LZ4F_getBlockSize` regenerated from the source).  It accepts a header
  exactly when the specification parser does, with the same fields and the same size, for every byte string and every
  checksum function.  Tie: all 65536 FLG/BD combinations with right and wrong header checksum, plus mutated frames, are
  fed to the real `LZ4F_decompress`; the judge runs the model on the same bytes and compares acceptance and, on
  rejection, the LZ4F error code.
* **No false success on truncation.**  Every strict prefix of a valid frame is rejected by the specification
  (`truncated_frame_rejected`); the real decoder's verdict on every input is compared with the specification's.
* **Complete ⇒ integrity.**  A frame the specification accepts has matching block/content checksums and declared size.

Chunking independence, progress and memory safety of the staged `LZ4F_decompress` machine are decided by the
correspondence only (every input decoded under 4–6 chunking policies incl. 1-byte feeds and tiny output capacities, ASan,
exact-size buffers): the dStage machine itself is not modelled (see DESIGN.md, partial).
-/
namespace LZ4V.C08
open LZ4V.Spec.FrameL LZ4V.Model.FrameD
open LZ4V.Spec.Frame (Header)

/-- what `LZ4F_decodeHeader` accepts, the specification accepts, with the same header fields and header size -/
theorem header_accepted_only_if_spec (E : Env) (src : Bytes) (hdr : Header) (size : Nat)
    (h : decodeHeader E.hash src = .ok (.done hdr size)) : specHeader E src = .ok (hdr, src.drop size) :=
  decodeHeader_sound E src hdr size h

/-- what the specification accepts, `LZ4F_decodeHeader` accepts, with the same header fields and header size -/
theorem header_accepted_if_spec (E : Env) (src : Bytes) (hdr : Header) (rest : Bytes)
    (h : specHeader E src = .ok (hdr, rest)) : decodeHeader E.hash src = .ok (.done hdr (src.length - rest.length)) :=
  decodeHeader_complete E src hdr rest h

/-- every strict prefix of a valid frame is not a valid frame -/
theorem truncated_frame_never_complete (E : Env) (dict : Bytes) (F : Nat) (f t u c : Bytes)
    (hf : pFrame E dict F f = .ok (c, [])) (hsplit : f = t ++ u) (hu : u ≠ []) (F' : Nat) (x : Bytes × Bytes) :
    pFrame E dict F' t ≠ .ok x := truncated_frame_rejected E dict F f t u c hf hsplit hu F' x

/-- a frame is complete only with a matching content checksum (when present) and declared content size (when present) -/
theorem complete_implies_integrity (E : Env) (dict : Bytes) (F : Nat) (s c r : Bytes) (h : pFrameBody E dict F s = .ok (c, r)) :
    ∃ hdr r1 r2 crc, pHeader E s = .ok (hdr, r1) ∧ pBlocks E hdr dict F [] r1 = .ok (c, r2) ∧
      takeN (if hdr.contentChecksum then 4 else 0) r2 = .ok (crc, r) ∧
      (hdr.contentChecksum = true → E.hash c = le crc) ∧ (∀ n, hdr.contentSize = some n → n = c.length) := by
  unfold pFrameBody Parser.bind at h
  cases h1 : pHeader E s with
  | error e => rw [h1] at h; cases h
  | ok v1 =>
    obtain ⟨hdr, r1⟩ := v1
    rw [h1] at h
    dsimp only at h
    cases h2 : pBlocks E hdr dict F [] r1 with
    | error e => rw [h2] at h; cases h
    | ok v2 =>
      obtain ⟨c2, r2⟩ := v2
      rw [h2] at h
      dsimp only at h
      cases h3 : takeN (if hdr.contentChecksum then 4 else 0) r2 with
      | error e => rw [h3] at h; cases h
      | ok v3 =>
        obtain ⟨crc, r3⟩ := v3
        rw [h3] at h
        dsimp only at h
        by_cases hc : hdr.contentChecksum = true ∧ E.hash c2 ≠ le crc
        · simp only [if_pos hc, Parser.fail] at h; cases h
        · by_cases hs : hdr.contentSize.isSome = true ∧ hdr.contentSize ≠ some c2.length
          · simp only [if_neg hc, if_pos hs, Parser.fail] at h; cases h
          · simp only [if_neg hc, if_neg hs, Parser.pure, Except.ok.injEq, Prod.mk.injEq] at h
            obtain ⟨rfl, rfl⟩ := h
            refine ⟨hdr, r1, r2, crc, rfl, h2, h3, ?_, ?_⟩
            · intro hcc
              by_cases he : E.hash c2 = le crc
              · exact he
              · exact absurd ⟨hcc, he⟩ hc
            · intro n hn
              by_cases he : n = c2.length
              · exact he
              · exfalso
                apply hs
                rw [hn]
                exact ⟨rfl, by intro h0; injection h0 with h0; exact he h0⟩

end LZ4V.C08
