import LZ4V.Proofs.FastCap
import LZ4V.Proofs.Arith
import LZ4V.Proofs.FastXProof
import LZ4V.Proofs.FastXCap
import LZ4V.HC.HC5
/-!
# C09 — block compressors honour the destination-capacity contract (specification + regenerated bound part)
-/
namespace LZ4V.C09
open LZ4V.Spec.Block LZ4V.Gen

/-- `LZ4_compressBound` (regenerated from the source on every run) covers the **worst parse** of `n` bytes that any
    compressor could emit: literal-only, match-heavy, any mix, any lengths straddling 255-multiples. -/
theorem compressBound_covers_every_parse (seqs : List Seq) (last : List UInt8) (h4 : ∀ s ∈ seqs, 4 ≤ s.ml)
    (hn : covered seqs last ≤ LZ4_MAX_INPUT_SIZE) :
    ((serialize seqs last).length : Int) ≤ LZ4_compressBound (covered seqs last : Int) := by
  rw [LZ4V.Arith.compressBound_eq _ hn]
  have := serialize_length_le seqs last h4
  omega

/-- sizes that are negative or above `LZ4_MAX_INPUT_SIZE` have bound 0 (and the entry points return 0 for them) -/
theorem compressBound_bad_size (i : Int) (hlo : -2147483648 ≤ i) (hhi : i ≤ 2147483647)
    (h : i < 0 ∨ i > (LZ4_MAX_INPUT_SIZE : Int)) : LZ4_compressBound i = 0 :=
  LZ4V.Arith.compressBound_bad i hlo hhi h

/-- a limited-output success still decodes: whatever was emitted, if it is the serialisation of a valid parse -/
theorem limited_success_decodes (seqs : List Seq) (last input : List UInt8)
    (hwf : ∀ s ∈ seqs, 4 ≤ s.ml ∧ s.off < 65536) (hv : ValidParse [] seqs last ([] ++ input)) :
    decode [] (serialize seqs last) = some input := roundtrip [] seqs last input hwf hv

/-- non-vacuity: the bound is tight enough to matter — a 300-byte literal-only block needs 303 bytes, bound is 317 -/
example : (serialize [] (List.replicate 300 0)).length = 303 ∧ LZ4_compressBound 300 = 317 := by
  refine ⟨?_, by decide⟩
  rw [serialize_length, serLast_length, ext_length, List.length_replicate]
  simp only [List.map_nil, List.sum_nil]
  rw [if_pos (by omega)]

/-- **The fast compressor (model) never needs more than the bound**: every block it returns, with or without an output
    limit, is at most `n + n/255 + 2` bytes, hence within `LZ4_compressBound(n)` (regenerated), for every input, hash
    function, table size and acceleration -/
theorem fast_compressor_within_bound (P : LZ4V.Model.Fast.Params) (src : Array UInt8) (tableSize : Nat)
    (hb : P.byU16 = true → src.size < 65547) (ha : 1 ≤ P.accel) (blk : List UInt8)
    (h : LZ4V.Model.Fast.compress P src tableSize = some blk) (hn : src.size ≤ LZ4_MAX_INPUT_SIZE) :
    (blk.length : Int) ≤ LZ4_compressBound (src.size : Int) := by
  rw [LZ4V.Arith.compressBound_eq _ hn]
  have := LZ4V.Model.Fast.compress_size P src tableSize hb ha blk h
  omega

/-- **never beyond the capacity**: under `limitedOutput` (capacity below the bound) every block the fast compressor model
    returns fits the capacity: its output position is exactly the serialised length, and each sequence and the last run
    are emitted only after the test the C code makes -/
theorem fast_compressor_fits_capacity (P : LZ4V.Model.Fast.Params) (src : Array UInt8) (tableSize : Nat)
    (hb : P.byU16 = true → src.size < 65547) (ha : 1 ≤ P.accel) (cap : Nat) (hl : P.limit = some cap) (blk : List UInt8)
    (h : LZ4V.Model.Fast.compress P src tableSize = some blk) : blk.length ≤ cap :=
  LZ4V.Model.Fast.compress_fits P src tableSize hb ha cap hl blk h

/-- **success at the bound**: with `notLimited` (what the entry points select when `dstCapacity ≥ LZ4_compressBound(n)`) the
    model returns a block for every input of legal size -/
theorem fast_compressor_succeeds_at_bound (P : LZ4V.Model.Fast.Params) (src : Array UInt8) (tableSize : Nat)
    (hl : P.limit = none) (hn : src.size ≤ LZ4_MAX_INPUT_SIZE) : ∃ blk, LZ4V.Model.Fast.compress P src tableSize = some blk :=
  LZ4V.Model.Fast.compress_succeeds P src tableSize hl hn

open LZ4V.Model.FastX in
/-- **streaming calls stay within `LZ4_compressBound` as well**: whatever the history, the placement and the dictionary, a block returned by
    `LZ4_compress_fast_continue` (model `Model/FastX.lean`) is at most `n + n/255 + 2` bytes long, which is below `LZ4_compressBound(n)` -/
theorem stream_block_within_bound (hashOf : Array UInt8 → Bool → Nat → Nat) (ops : List Op) (k addr : Nat) (data : Array UInt8) (acc : Int) (cap : Nat)
    (blk : List UInt8) (hop : ops[k]? = some (.compress addr data acc cap)) (h : (run hashOf {} ops)[k]? = some (.block (some blk))) :
    blk.length ≤ data.size + data.size / 255 + 2 := by
  have := (run_parsed hashOf ops {} [] Inv_init k addr data acc cap blk hop h [] _ rfl (Or.inl rfl)).size_le
  rwa [Array.length_toList] at this

open LZ4V.Model.FastX in
/-- **streaming calls never write beyond the capacity**: whatever the history of the stream (any placement of the sources, loaded, saved or attached
    dictionaries, resets), a block returned by `LZ4_compress_fast_continue` (model `Model/FastX.lean`) is at most `cap` bytes long — the output position
    of the model is exactly the number of bytes serialised so far, and every `limitedOutput` test of the C is in the model -/
theorem stream_block_fits_capacity (hashOf : Array UInt8 → Bool → Nat → Nat) (ops : List Op) (k addr : Nat) (data : Array UInt8) (acc : Int) (cap : Nat)
    (blk : List UInt8) (hop : ops[k]? = some (.compress addr data acc cap)) (h : (run hashOf {} ops)[k]? = some (.block (some blk))) :
    blk.length ≤ cap :=
  run_fits hashOf ops {} [] Inv_init k addr data acc cap blk hop h

/-- **HC, hash-chain levels**: whatever the match finders answer within their contract — one-shot, streaming or with a dictionary — the block is at most
    `n + n/255 + 2` bytes, below `LZ4_compressBound(n)`: a call given the bound never needs more -/
theorem hc_block_within_bound (hist block : List UInt8) (o : HC.Oracle) (hO : HC.OracleOK (hist ++ block) o) (fuel : Nat) (blk : List UInt8)
    (h : HC.compressH o hist block fuel = some blk) : blk.length ≤ block.length + block.length / 255 + 2 :=
  HC.compressH_size hist block o hO fuel blk h

end LZ4V.C09
