import LZ4V.Properties.C03E2E
import LZ4V.Properties.C08Fun
import LZ4V.Properties.C03Linked
/-!
# C03, both halves composed — what the compression model writes, the decompression model reads back, under every chunking

`Properties/C03E2E.lean`: for ANY call history (fast level, independent blocks, no dictionary, fresh compression context) the frame bytes of
the model (byte-identical to the real `LZ4F_compressBegin/Update/Flush/End` on every recorded frame) are one frame of the specification whose
content is the fed input.  `Properties/C08Fun.lean`: the `LZ4F_decompress` model (tied call by call to the real function) computes the
specification under ANY schedule of (input offered, output room).  Together: the model of the decoder, started at a frame boundary and driven
by any schedule, never reports an error on those bytes, and when it returns 0 it has delivered exactly the fed input and consumed exactly the frame.
-/
namespace LZ4V.C03
open LZ4V.Model LZ4V.Model.FrameFast LZ4V.Spec.FrameL LZ4V.Model.FrameDS

theorem specEnv_bounded (hash : Bytes → Nat) : DecBounded (specEnv hash) := by
  intro h p cap d hd
  unfold specEnv at hd
  dsimp only at hd
  cases hdec : LZ4V.Spec.Block.decode h p with
  | none => rw [hdec] at hd; cases hd
  | some D =>
    rw [hdec] at hd
    simp only [Option.bind] at hd
    split at hd
    · injection hd with hd; subst hd; assumption
    · cases hd

/-- **compressBegin..compressEnd, then LZ4F_decompress under any split of the compressed input and any output capacity per call** -/
theorem frame_round_trips_under_any_chunking (E : Env) (ok : EnvOK E) (hE : DecBounded E) (hashOf : Array UInt8 → Bool → Nat → Nat) (p : Prefs)
    (hb : 4 ≤ p.bsid ∧ p.bsid ≤ 7) (hcs64 : p.contentSize < 256 ^ 8) (hd32 : p.dictID < 256 ^ 4) (ops : List FrameC.Op)
    (hops : ∀ op ∈ ops, ∀ b a, op ≠ .begin b a) (f : Bytes) (h : frameOfOps E hashOf p ops = some f)
    (hcs : p.contentSize = 0 ∨ p.contentSize = (FrameC.fed ops).length)
    (c : Ctx) (hr : LZ4V.C08.Ready c []) (sched : List (Nat × Nat)) :
    (∀ code, session E c f sched [] ≠ .failed code) ∧
    (∀ c' rest' out', session E c f sched [] = .complete c' rest' out' → out' = FrameC.fed ops ∧ rest' = [] ∧ LZ4V.C08.Ready c' c'.dict) := by
  obtain ⟨F, hF⟩ := (frame_bytes_decode_to_input E ok hashOf p hb hcs64 hd32 ops hops f h hcs).1
  have hv := LZ4V.C08.valid_frame_decodes E hE c [] f hr F (FrameC.fed ops) [] hF sched
  refine ⟨hv.1, ?_⟩
  intro c' rest' out' hc
  obtain ⟨h1, h2⟩ := hv.2 c' rest' out' hc
  exact ⟨h1, h2, (LZ4V.C08.complete_only_if_spec E hE c [] f hr sched c' rest' out' hc).2⟩

/-- **the same for LINKED blocks (the default block mode)**: the frame `Model/FrameLinked.lean` produces — for any schedule of block placements and history
    saves, on a compression context with any past — fed to the `LZ4F_decompress` model under ANY split of the compressed input and ANY output capacity per
    call never fails, and when it completes it has returned exactly the blocks fed, consumed the whole frame, and left the context ready for the next one -/
theorem linked_frame_round_trips_under_any_chunking (E : Env) (okL : LZ4V.Model.FrameLinked.EnvOKL E) (hE : DecBounded E)
    (hashOf : Array UInt8 → Bool → Nat → Nat) (p : Prefs) (hb : 4 ≤ p.bsid ∧ p.bsid ≤ 7) (hcs64 : p.contentSize < 256 ^ 8) (hd32 : p.dictID < 256 ^ 4)
    (S0 : LZ4V.Model.FastX.XState) (hI0 : LZ4V.Model.FastX.Inv S0 []) (hnd0 : S0.dctx = none) (lops : List LZ4V.Model.FrameLinked.LOp)
    (hleg : LZ4V.Model.FrameLinked.LegalSizes p lops)
    (hcs : p.contentSize = 0 ∨ p.contentSize = (LZ4V.Model.FrameLinked.contentOf lops).length)
    (c : Ctx) (hr : LZ4V.C08.Ready c []) (sched : List (Nat × Nat)) :
    (∀ code, session E c (LZ4V.Model.FrameLinked.frameFrom E hashOf p S0 lops) sched [] ≠ .failed code) ∧
    (∀ c' rest' out', session E c (LZ4V.Model.FrameLinked.frameFrom E hashOf p S0 lops) sched [] = .complete c' rest' out' →
      out' = LZ4V.Model.FrameLinked.contentOf lops ∧ rest' = [] ∧ LZ4V.C08.Ready c' c'.dict) := by
  have hF := LZ4V.Model.FrameLinked.frameFrom_parses E okL hashOf p hb hcs64 hd32 S0 hI0 hnd0 lops hleg hcs
  have hv := LZ4V.C08.valid_frame_decodes E hE c [] _ hr _ (LZ4V.Model.FrameLinked.contentOf lops) [] hF sched
  refine ⟨hv.1, ?_⟩
  intro c' rest' out' hc
  obtain ⟨h1, h2⟩ := hv.2 c' rest' out' hc
  exact ⟨h1, h2, (LZ4V.C08.complete_only_if_spec E hE c [] _ hr sched c' rest' out' hc).2⟩

/-- **… and with a dictionary** (CDict attached or raw dictionary loaded, linked blocks): the decoder context being ready with the dictionary `dict`
    (`LZ4F_decompress_usingDict`), any chunking: never an error, and on completion exactly the blocks fed -/
theorem dictionary_frame_round_trips_under_any_chunking (E : Env) (okL : LZ4V.Model.FrameLinked.EnvOKL E) (hE : DecBounded E)
    (hashOf : Array UInt8 → Bool → Nat → Nat) (p : Prefs) (hb : 4 ≤ p.bsid ∧ p.bsid ≤ 7) (hcs64 : p.contentSize < 256 ^ 8) (hd32 : p.dictID < 256 ^ 4)
    (dict : Bytes) (S0 : LZ4V.Model.FastX.XState) (hJ0 : LZ4V.Model.FastX.JX S0) (addr : Nat) (d : Array UInt8)
    (hT : LZ4V.Model.FastX.IsTail d.toList dict) (attached : Bool) (lops : List LZ4V.Model.FrameLinked.LOp)
    (hleg : LZ4V.Model.FrameLinked.LegalSizes p lops)
    (hcs : p.contentSize = 0 ∨ p.contentSize = (LZ4V.Model.FrameLinked.contentOf lops).length)
    (c : Ctx) (hr : LZ4V.C08.Ready c dict) (sched : List (Nat × Nat)) :
    (∀ code, session E c (LZ4V.Model.FrameLinked.frameFrom E hashOf p S0
        ((if attached then LZ4V.Model.FrameLinked.LOp.attach addr d else LZ4V.Model.FrameLinked.LOp.load addr d) :: lops)) sched [] ≠ .failed code) ∧
    (∀ c' rest' out', session E c (LZ4V.Model.FrameLinked.frameFrom E hashOf p S0
        ((if attached then LZ4V.Model.FrameLinked.LOp.attach addr d else LZ4V.Model.FrameLinked.LOp.load addr d) :: lops)) sched [] = .complete c' rest' out' →
      out' = LZ4V.Model.FrameLinked.contentOf lops ∧ rest' = []) := by
  have hF := LZ4V.Model.FrameLinked.frame_with_dictionary_parses E okL hashOf p hb hcs64 hd32 dict S0 hJ0 addr d hT attached lops hleg hcs
  exact LZ4V.C08.valid_frame_decodes E hE c dict _ hr _ (LZ4V.Model.FrameLinked.contentOf lops) [] hF sched

/-- the hypotheses on the environment are satisfiable together -/
example (hash : Bytes → Nat) (h32 : ∀ l, hash l < 4294967296) : EnvOK (specEnv hash) ∧ DecBounded (specEnv hash) :=
  ⟨specEnv_ok hash h32, specEnv_bounded hash⟩

end LZ4V.C03
