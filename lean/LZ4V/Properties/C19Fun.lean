import LZ4V.Properties.C19
import LZ4V.Properties.C08Fun
import LZ4V.Proofs.FrameLinkedProof
import LZ4V.Proofs.FrameFastE2E
/-!
# C19, the decompression context — reusable after any history, frames consumed one by one

From `Properties/C08Fun.lean` (the dStage machine model of `LZ4F_decompress`):
* whatever the history, a context is at a frame boundary (`Ready`) after every call that returned 0 (a completed frame or a fully skipped
  skippable frame) and after `LZ4F_resetDecompressionContext` (in whatever state it was, e.g. after an error or an abandoned frame);
* a context at a frame boundary behaves as a fresh one: on the same input, under any two schedules, it cannot reach another verdict, deliver
  other bytes or stop elsewhere than a fresh context does;
* a call that returns 0 has consumed exactly the frame: the unconsumed rest is what follows the frame in the input, so consecutive frames
  presented in one buffer are consumed one at a time.
-/
namespace LZ4V.C19
open LZ4V.Spec.FrameL LZ4V.Model.FrameDS LZ4V.C08

/-- after ANY history: reset gives a context at a frame boundary -/
theorem reset_is_ready (c : Ctx) : Ready (reset c) [] := ready_reset c

/-- a context at a frame boundary (after any history) against a fresh context, same input, any two schedules: same output, same stopping
    point, never different verdicts; and the stopping point is the end of the frame as the specification defines it -/
theorem reused_context_behaves_as_fresh (E : Env) (hE : DecBounded E) (c : Ctx) (input : Bytes) (hc : Ready c []) (s1 s2 : List (Nat × Nat)) :
    (∀ a r o b r' o', session E c input s1 [] = .complete a r o → session E {} input s2 [] = .complete b r' o' → o = o' ∧ r = r') ∧
    (∀ a r o code, session E c input s1 [] = .complete a r o → session E {} input s2 [] ≠ .failed code) ∧
    (∀ a r o code, session E {} input s2 [] = .complete a r o → session E c input s1 [] ≠ .failed code) ∧
    (∀ a r o, session E c input s1 [] = .complete a r o → (∃ F, ∀ f, F ≤ f → pDFrame E [] f input = .ok (o, r)) ∧ Ready a a.dict) := by
  have h1 := chunking_independent E hE c {} [] input hc ready_fresh s1 s2
  have h2 := chunking_independent E hE {} c [] input ready_fresh hc s2 s1
  exact ⟨h1.1, h1.2, h2.2, fun a r o h => complete_only_if_spec E hE c [] input hc s1 a r o h⟩


/-- **a compression context with any past produces a correct linked-blocks frame** (fast levels; `Model/FrameLinked.lean`): whatever the earlier frames left
    in the context's LZ4 stream — after the `LZ4_resetStream_fast` of `LZ4F_compressBegin` that is ANY table of indexes not above `currentOffset`, any
    `currentOffset`, no dictionary (`FastX.Inv S0 []`; the judge checks it on the state dumped from the real context at the first block) — the frame
    produced next is one complete frame of the specification holding exactly the blocks fed, for every schedule of placements and history saves -/
theorem reused_cctx_linked_frame_decodes (E : LZ4V.Spec.FrameL.Env) (ok : LZ4V.Model.FrameLinked.EnvOKL E) (hashOf : Array UInt8 → Bool → Nat → Nat)
    (p : LZ4V.Model.FrameFast.Prefs) (hb : 4 ≤ p.bsid ∧ p.bsid ≤ 7) (hcs64 : p.contentSize < 256 ^ 8) (hd32 : p.dictID < 256 ^ 4)
    (S0 : LZ4V.Model.FastX.XState) (hI0 : LZ4V.Model.FastX.Inv S0 []) (hnd0 : S0.dctx = none) (ops : List LZ4V.Model.FrameLinked.LOp)
    (hleg : LZ4V.Model.FrameLinked.LegalSizes p ops)
    (hcs : p.contentSize = 0 ∨ p.contentSize = (LZ4V.Model.FrameLinked.contentOf ops).length) :
    ∃ F, LZ4V.Spec.FrameL.pFrame E [] F (LZ4V.Model.FrameLinked.frameFrom E hashOf p S0 ops) = .ok (LZ4V.Model.FrameLinked.contentOf ops, []) :=
  ⟨_, LZ4V.Model.FrameLinked.frameFrom_parses E ok hashOf p hb hcs64 hd32 S0 hI0 hnd0 ops hleg hcs⟩

/-- … and a correct independent-blocks frame (`Model/FrameFast.lean`): in that mode `LZ4F_compressBegin` does not reset the LZ4 state, every block goes
    through `LZ4_compress_fast_extState_fastReset` which decides itself what to keep (`LZ4_prepareTable`); the state the earlier frames left is ANY state
    satisfying `FastR.J` (table entries not above `currentOffset`; checked by the judge on the state dumped from the real context) -/
theorem reused_cctx_independent_frame_decodes (E : LZ4V.Spec.FrameL.Env) (ok : LZ4V.Model.FrameFast.EnvOK E) (hashOf : Array UInt8 → Bool → Nat → Nat)
    (p : LZ4V.Model.FrameFast.Prefs) (hb : 4 ≤ p.bsid ∧ p.bsid ≤ 7) (hcs64 : p.contentSize < 256 ^ 8) (hd32 : p.dictID < 256 ^ 4)
    (S0 : LZ4V.Model.FastR.RState) (hJ0 : LZ4V.Model.FastR.J S0) (ops : List LZ4V.Model.FrameC.Op)
    (hops : ∀ op ∈ ops, ∀ b a, op ≠ .begin b a) (f : LZ4V.Spec.FrameL.Bytes) (h : LZ4V.Model.FrameFast.frameOfOpsFrom E hashOf p S0 ops = some f)
    (hcs : p.contentSize = 0 ∨ p.contentSize = (LZ4V.Model.FrameC.fed ops).length) :
    ∃ F, LZ4V.Spec.FrameL.pFrame E [] F f = .ok (LZ4V.Model.FrameC.fed ops, []) :=
  LZ4V.Model.FrameFast.frameOfOpsFrom_parses E ok hashOf p hb hcs64 hd32 S0 hJ0 ops hops f h hcs

/-- the hypothesis is met by every state `LZ4_resetStream_fast` makes of a state satisfying the stream invariant -/
theorem reset_state_meets_hypothesis (S : LZ4V.Model.FastX.XState) (hJ : LZ4V.Model.FastX.JX S) :
    LZ4V.Model.FastX.Inv (LZ4V.Model.FastX.reset S) [] ∧ (LZ4V.Model.FastX.reset S).dctx = none := by
  obtain ⟨r1, r2⟩ := LZ4V.Model.FastX.reset_spec S hJ
  exact ⟨⟨r1, by rw [r2]; exact LZ4V.Model.FastX.IsTail.refl _, fun D h => by cases h⟩, rfl⟩

end LZ4V.C19
