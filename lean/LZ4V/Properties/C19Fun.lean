import LZ4V.Properties.C19
import LZ4V.Properties.C08Fun
/-!
# C19, the decompression context — reusable after any history, frames consumed one by one

From `Properties/C08Fun.lean` (the dStage machine model of `LZ4F_decompress`):
* whatever the history, a context is at a frame boundary (`Ready`) after every call that returned 0 (a completed frame or a fully skipped
  skippable frame) and after `LZ4F_resetDecompressionContext` (in whatever state it was, e.g. after an error or an abandoned frame);
* a context at a frame boundary behaves as a fresh one: on the same input, under any two schedules, it cannot reach another verdict, deliver
  other bytes or stop elsewhere than a fresh context does;
* a call that returns 0 has consumed exactly the frame: the unconsumed rest is what follows the frame in the input, so consecutive frames
  presented in one buffer are consumed one at a time.
-/
namespace LZ4V.C19
open LZ4V.Spec.FrameL LZ4V.Model.FrameDS LZ4V.C08

/-- after ANY history: reset gives a context at a frame boundary -/
theorem reset_is_ready (c : Ctx) : Ready (reset c) [] := ready_reset c

/-- a context at a frame boundary (after any history) against a fresh context, same input, any two schedules: same output, same stopping
    point, never different verdicts; and the stopping point is the end of the frame as the specification defines it -/
theorem reused_context_behaves_as_fresh (E : Env) (hE : DecBounded E) (c : Ctx) (input : Bytes) (hc : Ready c []) (s1 s2 : List (Nat × Nat)) :
    (∀ a r o b r' o', session E c input s1 [] = .complete a r o → session E {} input s2 [] = .complete b r' o' → o = o' ∧ r = r') ∧
    (∀ a r o code, session E c input s1 [] = .complete a r o → session E {} input s2 [] ≠ .failed code) ∧
    (∀ a r o code, session E {} input s2 [] = .complete a r o → session E c input s1 [] ≠ .failed code) ∧
    (∀ a r o, session E c input s1 [] = .complete a r o → (∃ F, ∀ f, F ≤ f → pDFrame E [] f input = .ok (o, r)) ∧ Ready a a.dict) := by
  have h1 := chunking_independent E hE c {} [] input hc ready_fresh s1 s2
  have h2 := chunking_independent E hE {} c [] input ready_fresh hc s2 s1
  exact ⟨h1.1, h1.2, h2.2, fun a r o h => complete_only_if_spec E hE c [] input hc s1 a r o h⟩

end LZ4V.C19
