import LZ4V.Spec.Frame
/-! # C10 — property theorems (in progress) -/
namespace LZ4V.C10
end LZ4V.C10
