import LZ4V.Gen.Funcs
import LZ4V.Gen.Consts
/-!
# C10 — LZ4F bound functions guarantee success and are never exceeded

All theorems are about the **regenerated** `LZ4F_compressBound_internal` / `LZ4F_compressBound` (translated from the C on
every run).  `worstUpdate` is the most an update can write: `LZ4F_makeBlock` stores a block raw whenever compression does not
shrink it, so a block of `n` input bytes costs at most `BHSize + n + BFSize·blockChecksumFlag`.
-/
namespace LZ4V.C10
open LZ4V.Gen

theorem emod_id (x m : Int) (h0 : 0 ≤ x) (h1 : x < m) : x % m = x := Int.emod_eq_of_lt h0 h1

def mkPrefs (id c k af : Int) : LZ4F_preferences_t :=
  { frameInfo := { blockSizeID := id, blockChecksumFlag := c, contentChecksumFlag := k }, autoFlush := af }

/-- block size in bytes of a valid block-size id -/
def bsOf (id : Int) : Int := if id = 5 then 262144 else if id = 6 then 1048576 else if id = 7 then 4194304 else 65536

/-- the most `LZ4F_compressUpdate` can write for `s` new bytes with `b` bytes buffered (`b < blockSize`), no autoFlush:
    every full block stored raw with its header and optional checksum; the rest stays buffered -/
def worstUpdate (bs c s b : Int) : Int := ((s + b) / bs) * (4 + bs + 4 * c)

/-- the most `LZ4F_flush` / `LZ4F_compressEnd` can write with `b` bytes buffered: the partial block raw, end mark, content checksum -/
def worstEnd (c k b : Int) : Int := (if b > 0 then 4 + b + 4 * c else 0) + 4 + 4 * k

/-- closed form of the regenerated `LZ4F_compressBound_internal`, block size id 4, no autoFlush, `s > 0` -/
theorem internal_noflush_4 (s b c k : Int) (hs : 0 < s) (hs2 : s < 2^40) (hb : 0 ≤ b) (hb2 : b < 65536)
    (hc : c = 0 ∨ c = 1) (hk : k = 0 ∨ k = 1) :
    LZ4F_compressBound_internal s (some (mkPrefs 4 c k 0)) b = ((s + b) / 65536) * (4 + 4 * c + 65536) + 4 + 4 * k := by
  have hne : s ≠ 0 := by omega
  have e1 : (s + b) % 18446744073709551616 = s + b := emod_id _ _ (by omega) (by omega)
  have e2 : (s + b) / 65536 % 4294967296 = (s + b) / 65536 := emod_id _ _ (by omega) (by omega)
  rcases hc with rfl | rfl <;> rcases hk with rfl | rfl <;>
  · unfold LZ4F_compressBound_internal LZ4F_getBlockSize LZ4F_returnErrorCode mkPrefs
    simp [hne]
    split
    · rw [e1, e2]; omega
    · have hbe : b = 65535 := by omega
      subst hbe
      rw [e1, e2]; omega

/-- closed form for `srcSize = 0` (the bound used for `LZ4F_flush` and `LZ4F_compressEnd`), block size id 4 -/
theorem internal_zero_4 (b c k : Int) (hb : 0 ≤ b) (hb2 : b < 65536) (hc : c = 0 ∨ c = 1) (hk : k = 0 ∨ k = 1) :
    LZ4F_compressBound_internal 0 (some (mkPrefs 4 c k 0)) b = (if b > 0 then 4 + b + 4 * c else 0) + 4 + 4 * k := by
  have e1 : b % 18446744073709551616 = b := emod_id _ _ (by omega) (by omega)
  have e2 : b / 65536 = 0 := Int.ediv_eq_zero_of_lt hb hb2
  have e3 : (b.toNat &&& 65535) = b.toNat := by
    have := Nat.and_two_pow_sub_one_eq_mod b.toNat 16
    simp at this
    rw [this]
    apply Nat.mod_eq_of_lt
    omega
  rcases hc with rfl | rfl <;> rcases hk with rfl | rfl <;>
  · unfold LZ4F_compressBound_internal LZ4F_getBlockSize LZ4F_returnErrorCode mkPrefs
    simp
    split
    · rw [e1, e2, e3]
      by_cases hb0 : b > 0
      · have : (b.toNat : Int) = b := Int.toNat_of_nonneg hb
        simp [hb0, this]; omega
      · have : b = 0 := by omega
        subst this; simp
    · rename_i hge
      have hbe : b = 65535 := by omega
      subst hbe
      decide

/-- closed form of the regenerated `LZ4F_compressBound_internal`, block size id 5, no autoFlush, `s > 0` -/
theorem internal_noflush_5 (s b c k : Int) (hs : 0 < s) (hs2 : s < 2^40) (hb : 0 ≤ b) (hb2 : b < 262144)
    (hc : c = 0 ∨ c = 1) (hk : k = 0 ∨ k = 1) :
    LZ4F_compressBound_internal s (some (mkPrefs 5 c k 0)) b = ((s + b) / 262144) * (4 + 4 * c + 262144) + 4 + 4 * k := by
  have hne : s ≠ 0 := by omega
  have e1 : (s + b) % 18446744073709551616 = s + b := emod_id _ _ (by omega) (by omega)
  have e2 : (s + b) / 262144 % 4294967296 = (s + b) / 262144 := emod_id _ _ (by omega) (by omega)
  rcases hc with rfl | rfl <;> rcases hk with rfl | rfl <;>
  · unfold LZ4F_compressBound_internal LZ4F_getBlockSize LZ4F_returnErrorCode mkPrefs
    simp [hne]
    split
    · rw [e1, e2]; omega
    · have hbe : b = 262143 := by omega
      subst hbe
      rw [e1, e2]; omega

/-- closed form for `srcSize = 0` (the bound used for `LZ4F_flush` and `LZ4F_compressEnd`), block size id 5 -/
theorem internal_zero_5 (b c k : Int) (hb : 0 ≤ b) (hb2 : b < 262144) (hc : c = 0 ∨ c = 1) (hk : k = 0 ∨ k = 1) :
    LZ4F_compressBound_internal 0 (some (mkPrefs 5 c k 0)) b = (if b > 0 then 4 + b + 4 * c else 0) + 4 + 4 * k := by
  have e1 : b % 18446744073709551616 = b := emod_id _ _ (by omega) (by omega)
  have e2 : b / 262144 = 0 := Int.ediv_eq_zero_of_lt hb hb2
  have e3 : (b.toNat &&& 262143) = b.toNat := by
    have := Nat.and_two_pow_sub_one_eq_mod b.toNat 18
    simp at this
    rw [this]
    apply Nat.mod_eq_of_lt
    omega
  rcases hc with rfl | rfl <;> rcases hk with rfl | rfl <;>
  · unfold LZ4F_compressBound_internal LZ4F_getBlockSize LZ4F_returnErrorCode mkPrefs
    simp
    split
    · rw [e1, e2, e3]
      by_cases hb0 : b > 0
      · have : (b.toNat : Int) = b := Int.toNat_of_nonneg hb
        simp [hb0, this]; omega
      · have : b = 0 := by omega
        subst this; simp
    · rename_i hge
      have hbe : b = 262143 := by omega
      subst hbe
      decide

/-- closed form of the regenerated `LZ4F_compressBound_internal`, block size id 6, no autoFlush, `s > 0` -/
theorem internal_noflush_6 (s b c k : Int) (hs : 0 < s) (hs2 : s < 2^40) (hb : 0 ≤ b) (hb2 : b < 1048576)
    (hc : c = 0 ∨ c = 1) (hk : k = 0 ∨ k = 1) :
    LZ4F_compressBound_internal s (some (mkPrefs 6 c k 0)) b = ((s + b) / 1048576) * (4 + 4 * c + 1048576) + 4 + 4 * k := by
  have hne : s ≠ 0 := by omega
  have e1 : (s + b) % 18446744073709551616 = s + b := emod_id _ _ (by omega) (by omega)
  have e2 : (s + b) / 1048576 % 4294967296 = (s + b) / 1048576 := emod_id _ _ (by omega) (by omega)
  rcases hc with rfl | rfl <;> rcases hk with rfl | rfl <;>
  · unfold LZ4F_compressBound_internal LZ4F_getBlockSize LZ4F_returnErrorCode mkPrefs
    simp [hne]
    split
    · rw [e1, e2]; omega
    · have hbe : b = 1048575 := by omega
      subst hbe
      rw [e1, e2]; omega

/-- closed form for `srcSize = 0` (the bound used for `LZ4F_flush` and `LZ4F_compressEnd`), block size id 6 -/
theorem internal_zero_6 (b c k : Int) (hb : 0 ≤ b) (hb2 : b < 1048576) (hc : c = 0 ∨ c = 1) (hk : k = 0 ∨ k = 1) :
    LZ4F_compressBound_internal 0 (some (mkPrefs 6 c k 0)) b = (if b > 0 then 4 + b + 4 * c else 0) + 4 + 4 * k := by
  have e1 : b % 18446744073709551616 = b := emod_id _ _ (by omega) (by omega)
  have e2 : b / 1048576 = 0 := Int.ediv_eq_zero_of_lt hb hb2
  have e3 : (b.toNat &&& 1048575) = b.toNat := by
    have := Nat.and_two_pow_sub_one_eq_mod b.toNat 20
    simp at this
    rw [this]
    apply Nat.mod_eq_of_lt
    omega
  rcases hc with rfl | rfl <;> rcases hk with rfl | rfl <;>
  · unfold LZ4F_compressBound_internal LZ4F_getBlockSize LZ4F_returnErrorCode mkPrefs
    simp
    split
    · rw [e1, e2, e3]
      by_cases hb0 : b > 0
      · have : (b.toNat : Int) = b := Int.toNat_of_nonneg hb
        simp [hb0, this]; omega
      · have : b = 0 := by omega
        subst this; simp
    · rename_i hge
      have hbe : b = 1048575 := by omega
      subst hbe
      decide

/-- closed form of the regenerated `LZ4F_compressBound_internal`, block size id 7, no autoFlush, `s > 0` -/
theorem internal_noflush_7 (s b c k : Int) (hs : 0 < s) (hs2 : s < 2^40) (hb : 0 ≤ b) (hb2 : b < 4194304)
    (hc : c = 0 ∨ c = 1) (hk : k = 0 ∨ k = 1) :
    LZ4F_compressBound_internal s (some (mkPrefs 7 c k 0)) b = ((s + b) / 4194304) * (4 + 4 * c + 4194304) + 4 + 4 * k := by
  have hne : s ≠ 0 := by omega
  have e1 : (s + b) % 18446744073709551616 = s + b := emod_id _ _ (by omega) (by omega)
  have e2 : (s + b) / 4194304 % 4294967296 = (s + b) / 4194304 := emod_id _ _ (by omega) (by omega)
  rcases hc with rfl | rfl <;> rcases hk with rfl | rfl <;>
  · unfold LZ4F_compressBound_internal LZ4F_getBlockSize LZ4F_returnErrorCode mkPrefs
    simp [hne]
    split
    · rw [e1, e2]; omega
    · have hbe : b = 4194303 := by omega
      subst hbe
      rw [e1, e2]; omega

/-- closed form for `srcSize = 0` (the bound used for `LZ4F_flush` and `LZ4F_compressEnd`), block size id 7 -/
theorem internal_zero_7 (b c k : Int) (hb : 0 ≤ b) (hb2 : b < 4194304) (hc : c = 0 ∨ c = 1) (hk : k = 0 ∨ k = 1) :
    LZ4F_compressBound_internal 0 (some (mkPrefs 7 c k 0)) b = (if b > 0 then 4 + b + 4 * c else 0) + 4 + 4 * k := by
  have e1 : b % 18446744073709551616 = b := emod_id _ _ (by omega) (by omega)
  have e2 : b / 4194304 = 0 := Int.ediv_eq_zero_of_lt hb hb2
  have e3 : (b.toNat &&& 4194303) = b.toNat := by
    have := Nat.and_two_pow_sub_one_eq_mod b.toNat 22
    simp at this
    rw [this]
    apply Nat.mod_eq_of_lt
    omega
  rcases hc with rfl | rfl <;> rcases hk with rfl | rfl <;>
  · unfold LZ4F_compressBound_internal LZ4F_getBlockSize LZ4F_returnErrorCode mkPrefs
    simp
    split
    · rw [e1, e2, e3]
      by_cases hb0 : b > 0
      · have : (b.toNat : Int) = b := Int.toNat_of_nonneg hb
        simp [hb0, this]; omega
      · have : b = 0 := by omega
        subst this; simp
    · rename_i hge
      have hbe : b = 4194303 := by omega
      subst hbe
      decide

/-- **an update never needs more than the internal bound**: whatever is buffered (`0 ≤ b < blockSize`), the worst case
    (every full block incompressible, stored raw) is covered, for every valid block size and checksum setting -/
theorem update_le_internal (id s b c k : Int) (hid : id = 4 ∨ id = 5 ∨ id = 6 ∨ id = 7)
    (hs : 0 < s) (hs2 : s < 2^40) (hb : 0 ≤ b) (hb2 : b < bsOf id) (hc : c = 0 ∨ c = 1) (hk : k = 0 ∨ k = 1) :
    worstUpdate (bsOf id) c s b ≤ LZ4F_compressBound_internal s (some (mkPrefs id c k 0)) b := by
  unfold worstUpdate
  rcases hid with rfl | rfl | rfl | rfl
  · have hbs : bsOf 4 = 65536 := by decide
    rw [hbs] at hb2 ⊢
    rw [internal_noflush_4 s b c k hs hs2 hb hb2 hc hk]
    rcases hc with rfl | rfl <;> rcases hk with rfl | rfl <;> omega
  · have hbs : bsOf 5 = 262144 := by decide
    rw [hbs] at hb2 ⊢
    rw [internal_noflush_5 s b c k hs hs2 hb hb2 hc hk]
    rcases hc with rfl | rfl <;> rcases hk with rfl | rfl <;> omega
  · have hbs : bsOf 6 = 1048576 := by decide
    rw [hbs] at hb2 ⊢
    rw [internal_noflush_6 s b c k hs hs2 hb hb2 hc hk]
    rcases hc with rfl | rfl <;> rcases hk with rfl | rfl <;> omega
  · have hbs : bsOf 7 = 4194304 := by decide
    rw [hbs] at hb2 ⊢
    rw [internal_noflush_7 s b c k hs hs2 hb hb2 hc hk]
    rcases hc with rfl | rfl <;> rcases hk with rfl | rfl <;> omega

/-- **`LZ4F_compressBound(0, prefs)` covers flush and end**: the internal bound for `srcSize = 0` is exactly the worst case of
    emitting the buffered partial block raw plus the end mark and content checksum -/
theorem end_eq_internal_zero (id b c k : Int) (hid : id = 4 ∨ id = 5 ∨ id = 6 ∨ id = 7)
    (hb : 0 ≤ b) (hb2 : b < bsOf id) (hc : c = 0 ∨ c = 1) (hk : k = 0 ∨ k = 1) :
    worstEnd c k b = LZ4F_compressBound_internal 0 (some (mkPrefs id c k 0)) b := by
  unfold worstEnd
  rcases hid with rfl | rfl | rfl | rfl
  · have hbs : bsOf 4 = 65536 := by decide
    rw [hbs] at hb2
    rw [internal_zero_4 b c k hb hb2 hc hk]
  · have hbs : bsOf 5 = 262144 := by decide
    rw [hbs] at hb2
    rw [internal_zero_5 b c k hb hb2 hc hk]
  · have hbs : bsOf 6 = 1048576 := by decide
    rw [hbs] at hb2
    rw [internal_zero_6 b c k hb hb2 hc hk]
  · have hbs : bsOf 7 = 4194304 := by decide
    rw [hbs] at hb2
    rw [internal_zero_7 b c k hb hb2 hc hk]

/-- `LZ4F_compressBound` (no autoFlush) assumes the largest possible buffered amount, block size id 4 -/
theorem bound_eq_internal_max_4 (s c k : Int) :
    LZ4F_compressBound s (some (mkPrefs 4 c k 0)) = LZ4F_compressBound_internal s (some (mkPrefs 4 c k 0)) 65535 := by
  unfold LZ4F_compressBound LZ4F_compressBound_internal LZ4F_getBlockSize mkPrefs
  simp

/-- `LZ4F_compressBound` (no autoFlush) assumes the largest possible buffered amount, block size id 5 -/
theorem bound_eq_internal_max_5 (s c k : Int) :
    LZ4F_compressBound s (some (mkPrefs 5 c k 0)) = LZ4F_compressBound_internal s (some (mkPrefs 5 c k 0)) 262143 := by
  unfold LZ4F_compressBound LZ4F_compressBound_internal LZ4F_getBlockSize mkPrefs
  simp

/-- `LZ4F_compressBound` (no autoFlush) assumes the largest possible buffered amount, block size id 6 -/
theorem bound_eq_internal_max_6 (s c k : Int) :
    LZ4F_compressBound s (some (mkPrefs 6 c k 0)) = LZ4F_compressBound_internal s (some (mkPrefs 6 c k 0)) 1048575 := by
  unfold LZ4F_compressBound LZ4F_compressBound_internal LZ4F_getBlockSize mkPrefs
  simp

/-- `LZ4F_compressBound` (no autoFlush) assumes the largest possible buffered amount, block size id 7 -/
theorem bound_eq_internal_max_7 (s c k : Int) :
    LZ4F_compressBound s (some (mkPrefs 7 c k 0)) = LZ4F_compressBound_internal s (some (mkPrefs 7 c k 0)) 4194303 := by
  unfold LZ4F_compressBound LZ4F_compressBound_internal LZ4F_getBlockSize mkPrefs
  simp

/-- **`LZ4F_compressBound(srcSize, prefs)` suffices whatever earlier updates left buffered**: the public bound dominates the
    internal bound (hence the worst case of the update, `update_le_internal`) for every buffered amount `0 ≤ b < blockSize` -/
theorem bound_covers_any_buffered (id s b c k : Int) (hid : id = 4 ∨ id = 5 ∨ id = 6 ∨ id = 7)
    (hs : 0 < s) (hs2 : s < 2^40) (hb : 0 ≤ b) (hb2 : b < bsOf id) (hc : c = 0 ∨ c = 1) (hk : k = 0 ∨ k = 1) :
    worstUpdate (bsOf id) c s b ≤ LZ4F_compressBound s (some (mkPrefs id c k 0)) := by
  have h1 := update_le_internal id s b c k hid hs hs2 hb hb2 hc hk
  refine Int.le_trans h1 ?_
  rcases hid with rfl | rfl | rfl | rfl
  · have hbs : bsOf 4 = 65536 := by decide
    rw [hbs] at hb2
    rw [bound_eq_internal_max_4, internal_noflush_4 s b c k hs hs2 hb hb2 hc hk,
        internal_noflush_4 s 65535 c k hs hs2 (by omega) (by omega) hc hk]
    have hmono : (s + b) / 65536 ≤ (s + 65535) / 65536 := Int.ediv_le_ediv (by omega) (by omega)
    rcases hc with rfl | rfl <;> rcases hk with rfl | rfl <;> omega
  · have hbs : bsOf 5 = 262144 := by decide
    rw [hbs] at hb2
    rw [bound_eq_internal_max_5, internal_noflush_5 s b c k hs hs2 hb hb2 hc hk,
        internal_noflush_5 s 262143 c k hs hs2 (by omega) (by omega) hc hk]
    have hmono : (s + b) / 262144 ≤ (s + 262143) / 262144 := Int.ediv_le_ediv (by omega) (by omega)
    rcases hc with rfl | rfl <;> rcases hk with rfl | rfl <;> omega
  · have hbs : bsOf 6 = 1048576 := by decide
    rw [hbs] at hb2
    rw [bound_eq_internal_max_6, internal_noflush_6 s b c k hs hs2 hb hb2 hc hk,
        internal_noflush_6 s 1048575 c k hs hs2 (by omega) (by omega) hc hk]
    have hmono : (s + b) / 1048576 ≤ (s + 1048575) / 1048576 := Int.ediv_le_ediv (by omega) (by omega)
    rcases hc with rfl | rfl <;> rcases hk with rfl | rfl <;> omega
  · have hbs : bsOf 7 = 4194304 := by decide
    rw [hbs] at hb2
    rw [bound_eq_internal_max_7, internal_noflush_7 s b c k hs hs2 hb hb2 hc hk,
        internal_noflush_7 s 4194303 c k hs hs2 (by omega) (by omega) hc hk]
    have hmono : (s + b) / 4194304 ≤ (s + 4194303) / 4194304 := Int.ediv_le_ediv (by omega) (by omega)
    rcases hc with rfl | rfl <;> rcases hk with rfl | rfl <;> omega

/-- non-vacuity and the F2 witness in numbers: 10 bytes buffered + one 64 KB block through the OTHER update function needs
    `4+10` (flushed partial block) `+ 4 + 65536` bytes, i.e. 65554, more than `LZ4F_compressBound(65536) = 65544` -/
example : LZ4F_compressBound 65536 (some (mkPrefs 4 0 0 0)) = 65544 ∧ (4 + 10) + (4 + 65536) > (65544 : Int) := by decide

/-! ## with autoFlush: every call is self-contained; full blocks, the partial block, end mark and checksum -/

/-- closed form with autoFlush, block size id 4, `s > 0`, `b` bytes buffered: full blocks, then the partial block, the end mark and checksum -/
theorem internal_autoflush_4 (s b c k : Int) (hs : 0 < s) (hs2 : s < 2^40) (hb : 0 ≤ b) (hb2 : b < 65535)
    (hc : c = 0 ∨ c = 1) (hk : k = 0 ∨ k = 1) :
    LZ4F_compressBound_internal s (some (mkPrefs 4 c k 1)) b =
      ((s + b) / 65536) * (4 + 4 * c + 65536) + (if (s + b) % 65536 > 0 then 4 + 4 * c + (s + b) % 65536 else 0) + 4 + 4 * k := by
  have hne : s ≠ 0 := by omega
  have e1 : (s + b) % 18446744073709551616 = s + b := emod_id _ _ (by omega) (by omega)
  have e2 : (s + b) / 65536 % 4294967296 = (s + b) / 65536 := emod_id _ _ (by omega) (by omega)
  have hsb : 0 ≤ s + b := by omega
  have e3 : (((s + b).toNat &&& 65535 : Nat) : Int) = (s + b) % 65536 := by
    have := Nat.and_two_pow_sub_one_eq_mod (s + b).toNat 16
    simp at this
    rw [this]
    omega
  rcases hc with rfl | rfl <;> rcases hk with rfl | rfl <;>
  · unfold LZ4F_compressBound_internal LZ4F_getBlockSize LZ4F_returnErrorCode mkPrefs
    simp [hne]
    rw [if_pos (by omega), e1, e2, e3]
    have hq1 : 0 ≤ (s + b) / 65536 := by omega
    have hq2 : (s + b) / 65536 ≤ 16777217 := by omega
    have hr1 : 0 ≤ (s + b) % 65536 := by omega
    have hr2 : (s + b) % 65536 < 65536 := by omega
    generalize (s + b) / 65536 = q at *
    generalize (s + b) % 65536 = r at *
    have w1 : (q + 1) % 4294967296 = q + 1 := emod_id _ _ (by omega) (by omega)
    have w0 : (q + 0) % 4294967296 = q := by rw [Int.add_zero]; exact emod_id _ _ (by omega) (by omega)
    split
    · rename_i hr
      rw [w1, emod_id _ _ (by omega) (by omega), if_pos (by omega)]; omega
    · rename_i hr
      have hr0 : r = 0 := by omega
      rw [w0, emod_id _ _ (by omega) (by omega), if_neg (by omega)]; omega

/-- closed form with autoFlush, block size id 5, `s > 0`, `b` bytes buffered: full blocks, then the partial block, the end mark and checksum -/
theorem internal_autoflush_5 (s b c k : Int) (hs : 0 < s) (hs2 : s < 2^40) (hb : 0 ≤ b) (hb2 : b < 262143)
    (hc : c = 0 ∨ c = 1) (hk : k = 0 ∨ k = 1) :
    LZ4F_compressBound_internal s (some (mkPrefs 5 c k 1)) b =
      ((s + b) / 262144) * (4 + 4 * c + 262144) + (if (s + b) % 262144 > 0 then 4 + 4 * c + (s + b) % 262144 else 0) + 4 + 4 * k := by
  have hne : s ≠ 0 := by omega
  have e1 : (s + b) % 18446744073709551616 = s + b := emod_id _ _ (by omega) (by omega)
  have e2 : (s + b) / 262144 % 4294967296 = (s + b) / 262144 := emod_id _ _ (by omega) (by omega)
  have hsb : 0 ≤ s + b := by omega
  have e3 : (((s + b).toNat &&& 262143 : Nat) : Int) = (s + b) % 262144 := by
    have := Nat.and_two_pow_sub_one_eq_mod (s + b).toNat 18
    simp at this
    rw [this]
    omega
  rcases hc with rfl | rfl <;> rcases hk with rfl | rfl <;>
  · unfold LZ4F_compressBound_internal LZ4F_getBlockSize LZ4F_returnErrorCode mkPrefs
    simp [hne]
    rw [if_pos (by omega), e1, e2, e3]
    have hq1 : 0 ≤ (s + b) / 262144 := by omega
    have hq2 : (s + b) / 262144 ≤ 16777217 := by omega
    have hr1 : 0 ≤ (s + b) % 262144 := by omega
    have hr2 : (s + b) % 262144 < 262144 := by omega
    generalize (s + b) / 262144 = q at *
    generalize (s + b) % 262144 = r at *
    have w1 : (q + 1) % 4294967296 = q + 1 := emod_id _ _ (by omega) (by omega)
    have w0 : (q + 0) % 4294967296 = q := by rw [Int.add_zero]; exact emod_id _ _ (by omega) (by omega)
    split
    · rename_i hr
      rw [w1, emod_id _ _ (by omega) (by omega), if_pos (by omega)]; omega
    · rename_i hr
      have hr0 : r = 0 := by omega
      rw [w0, emod_id _ _ (by omega) (by omega), if_neg (by omega)]; omega

/-- closed form with autoFlush, block size id 6, `s > 0`, `b` bytes buffered: full blocks, then the partial block, the end mark and checksum -/
theorem internal_autoflush_6 (s b c k : Int) (hs : 0 < s) (hs2 : s < 2^40) (hb : 0 ≤ b) (hb2 : b < 1048575)
    (hc : c = 0 ∨ c = 1) (hk : k = 0 ∨ k = 1) :
    LZ4F_compressBound_internal s (some (mkPrefs 6 c k 1)) b =
      ((s + b) / 1048576) * (4 + 4 * c + 1048576) + (if (s + b) % 1048576 > 0 then 4 + 4 * c + (s + b) % 1048576 else 0) + 4 + 4 * k := by
  have hne : s ≠ 0 := by omega
  have e1 : (s + b) % 18446744073709551616 = s + b := emod_id _ _ (by omega) (by omega)
  have e2 : (s + b) / 1048576 % 4294967296 = (s + b) / 1048576 := emod_id _ _ (by omega) (by omega)
  have hsb : 0 ≤ s + b := by omega
  have e3 : (((s + b).toNat &&& 1048575 : Nat) : Int) = (s + b) % 1048576 := by
    have := Nat.and_two_pow_sub_one_eq_mod (s + b).toNat 20
    simp at this
    rw [this]
    omega
  rcases hc with rfl | rfl <;> rcases hk with rfl | rfl <;>
  · unfold LZ4F_compressBound_internal LZ4F_getBlockSize LZ4F_returnErrorCode mkPrefs
    simp [hne]
    rw [if_pos (by omega), e1, e2, e3]
    have hq1 : 0 ≤ (s + b) / 1048576 := by omega
    have hq2 : (s + b) / 1048576 ≤ 16777217 := by omega
    have hr1 : 0 ≤ (s + b) % 1048576 := by omega
    have hr2 : (s + b) % 1048576 < 1048576 := by omega
    generalize (s + b) / 1048576 = q at *
    generalize (s + b) % 1048576 = r at *
    have w1 : (q + 1) % 4294967296 = q + 1 := emod_id _ _ (by omega) (by omega)
    have w0 : (q + 0) % 4294967296 = q := by rw [Int.add_zero]; exact emod_id _ _ (by omega) (by omega)
    split
    · rename_i hr
      rw [w1, emod_id _ _ (by omega) (by omega), if_pos (by omega)]; omega
    · rename_i hr
      have hr0 : r = 0 := by omega
      rw [w0, emod_id _ _ (by omega) (by omega), if_neg (by omega)]; omega

/-- closed form with autoFlush, block size id 7, `s > 0`, `b` bytes buffered: full blocks, then the partial block, the end mark and checksum -/
theorem internal_autoflush_7 (s b c k : Int) (hs : 0 < s) (hs2 : s < 2^40) (hb : 0 ≤ b) (hb2 : b < 4194303)
    (hc : c = 0 ∨ c = 1) (hk : k = 0 ∨ k = 1) :
    LZ4F_compressBound_internal s (some (mkPrefs 7 c k 1)) b =
      ((s + b) / 4194304) * (4 + 4 * c + 4194304) + (if (s + b) % 4194304 > 0 then 4 + 4 * c + (s + b) % 4194304 else 0) + 4 + 4 * k := by
  have hne : s ≠ 0 := by omega
  have e1 : (s + b) % 18446744073709551616 = s + b := emod_id _ _ (by omega) (by omega)
  have e2 : (s + b) / 4194304 % 4294967296 = (s + b) / 4194304 := emod_id _ _ (by omega) (by omega)
  have hsb : 0 ≤ s + b := by omega
  have e3 : (((s + b).toNat &&& 4194303 : Nat) : Int) = (s + b) % 4194304 := by
    have := Nat.and_two_pow_sub_one_eq_mod (s + b).toNat 22
    simp at this
    rw [this]
    omega
  rcases hc with rfl | rfl <;> rcases hk with rfl | rfl <;>
  · unfold LZ4F_compressBound_internal LZ4F_getBlockSize LZ4F_returnErrorCode mkPrefs
    simp [hne]
    rw [if_pos (by omega), e1, e2, e3]
    have hq1 : 0 ≤ (s + b) / 4194304 := by omega
    have hq2 : (s + b) / 4194304 ≤ 16777217 := by omega
    have hr1 : 0 ≤ (s + b) % 4194304 := by omega
    have hr2 : (s + b) % 4194304 < 4194304 := by omega
    generalize (s + b) / 4194304 = q at *
    generalize (s + b) % 4194304 = r at *
    have w1 : (q + 1) % 4294967296 = q + 1 := emod_id _ _ (by omega) (by omega)
    have w0 : (q + 0) % 4294967296 = q := by rw [Int.add_zero]; exact emod_id _ _ (by omega) (by omega)
    split
    · rename_i hr
      rw [w1, emod_id _ _ (by omega) (by omega), if_pos (by omega)]; omega
    · rename_i hr
      have hr0 : r = 0 := by omega
      rw [w0, emod_id _ _ (by omega) (by omega), if_neg (by omega)]; omega

end LZ4V.C10
