import LZ4V.Properties.C12
import LZ4V.Proofs.FastXProof
import LZ4V.Properties.C03Linked
import LZ4V.HC.HC5
/-!
# C12 — dictionary compression round-trips: `LZ4_loadDict` / `LZ4_loadDictSlow` + `LZ4_compress_fast_continue`, as functions

`Model/FastX.lean` is the state machine of one `LZ4_stream_t` (table filling of `LZ4_loadDict_internal`, both variants; the 64 KB offset; the
compression in prefix or external-dictionary mode depending on where the source lies relative to the dictionary; `LZ4_saveDict`); it is tied byte for
byte to recorded lives of real streams.  `usingDictCtx` (`LZ4_attach_dictionary`) and HC are not in the model.
-/
namespace LZ4V.C12
open LZ4V.Spec.Block LZ4V.Model.FastX

/-- a block compressed right after a dictionary load — dictionary of ANY size, loaded either way, lying ANYWHERE relative to the source —
    decodes to its source when the decoder is given the same dictionary bytes -/
theorem loaded_dictionary_round_trips (hashOf : Array UInt8 → Bool → Nat → Nat) (daddr : Nat) (d : Array UInt8) (slow : Bool)
    (addr : Nat) (data : Array UInt8) (acc : Int) (cap : Nat) (rest : List Op) (blk : List UInt8)
    (h : (run hashOf {} (.loadDict daddr d slow :: .compress addr data acc cap :: rest))[1]? = some (.block (some blk))) :
    decode d.toList blk = some data.toList :=
  (run_parsed hashOf _ {} [] Inv_init 1 addr data acc cap blk rfl h [] _ rfl (Or.inl rfl)).decode

/-- … and when it is given only the last 64 KB of it (any tail of at least 65535 bytes): nothing older is ever referenced -/
theorem loaded_dictionary_last_64KB_suffice (hashOf : Array UInt8 → Bool → Nat → Nat) (daddr : Nat) (d : Array UInt8) (slow : Bool)
    (addr : Nat) (data : Array UInt8) (acc : Int) (cap : Nat) (rest : List Op) (blk : List UInt8)
    (h : (run hashOf {} (.loadDict daddr d slow :: .compress addr data acc cap :: rest))[1]? = some (.block (some blk)))
    (front w : List UInt8) (hw : d.toList = front ++ w) (hlen : 65535 ≤ w.length) :
    decode w blk = some data.toList :=
  (run_parsed hashOf _ {} [] Inv_init 1 addr data acc cap blk rfl h front w hw (Or.inr hlen)).decode

/-- every LATER block of the stream too (any operations in between: more blocks anywhere, dictionary saves): it decodes against the dictionary
    followed by the blocks compressed since the load -/
theorem stream_after_load_round_trips (hashOf : Array UInt8 → Bool → Nat → Nat) (ops : List Op) (k addr : Nat) (data : Array UInt8) (acc : Int) (cap : Nat)
    (blk : List UInt8) (hop : ops[k]? = some (.compress addr data acc cap)) (h : (run hashOf {} ops)[k]? = some (.block (some blk))) :
    decode (histAt [] ops k) blk = some data.toList :=
  (run_parsed hashOf ops {} [] Inv_init k addr data acc cap blk hop h [] _ rfl (Or.inl rfl)).decode

/-- **attached dictionary streams** (`LZ4_attach_dictionary` of a stream prepared by `LZ4_loadDict(Slow)`): the first block compressed after the
    attachment — below the 4 KB threshold (`usingDictCtx`: two tables, index shift `dictDelta`) or above it (the dictionary stream is copied over the
    working stream) — decodes to its source given the dictionary bytes; the dictionary stream is a VALUE of the model that no operation writes -/
theorem attached_dictionary_round_trips (hashOf : Array UInt8 → Bool → Nat → Nat) (daddr : Nat) (d : Array UInt8) (slow : Bool)
    (addr : Nat) (data : Array UInt8) (acc : Int) (cap : Nat) (before rest : List Op) (blk : List UInt8)
    (h : (run hashOf {} (before ++ .attach daddr d slow :: .compress addr data acc cap :: rest))[before.length + 1]? = some (.block (some blk))) :
    decode d.toList blk = some data.toList := by
  have hop : (before ++ Op.attach daddr d slow :: Op.compress addr data acc cap :: rest)[before.length + 1]? = some (.compress addr data acc cap) := by
    rw [List.getElem?_append_right (by omega)]; simp
  have hh : histAt [] (before ++ Op.attach daddr d slow :: Op.compress addr data acc cap :: rest) (before.length + 1) = d.toList := by
    have : ∀ (H : List UInt8) (b : List Op), histAt H (b ++ Op.attach daddr d slow :: Op.compress addr data acc cap :: rest) (b.length + 1) = d.toList := by
      intro H b
      induction b generalizing H with
      | nil => simp [histAt, hist]
      | cons x xs ih => simpa [histAt] using ih (hist H x)
    exact this [] before
  exact (run_parsed hashOf _ {} [] Inv_init (before.length + 1) addr data acc cap blk hop h [] _ (by rw [hh]; rfl) (Or.inl rfl)).decode

/-- **HC dictionaries at the hash-chain levels** (`LZ4_loadDictHC`, any size): the block compressed after the load decodes given the dictionary bytes, for
    EVERY match finder that honours its contract (model `LZ4V/HC` run on `dictionary ++ block`; the contract is checked on every answer of the real finders
    in the recorded sessions) -/
theorem hc_loaded_dictionary_round_trips (dict block : List UInt8) (o : HC.Oracle) (hO : HC.OracleOK (dict ++ block) o) (fuel : Nat) (blk : List UInt8)
    (h : HC.compressH o dict block fuel = some blk) : decode dict blk = some block :=
  HC.compressH_decodes dict block o hO fuel blk h

/-- **LZ4F frames with a CDict or a raw dictionary at the fast levels** decode to the input when the decoder is given the same dictionary bytes
    (linked blocks: `LZ4V.C03.linked_frame_with_dictionary_decodes`; independent blocks with a CDict: every block against the dictionary alone).  The
    CDict's prepared stream is a value of the model that no operation writes. -/
theorem cdict_frame_independent_blocks_decodes (E : LZ4V.Spec.FrameL.Env) (ok : LZ4V.Model.FrameLinked.EnvOKL E) (hashOf : Array UInt8 → Bool → Nat → Nat)
    (p : LZ4V.Model.FrameFast.Prefs) (hb : 4 ≤ p.bsid ∧ p.bsid ≤ 7) (hcs64 : p.contentSize < 256 ^ 8) (hd32 : p.dictID < 256 ^ 4) (dict : LZ4V.Spec.FrameL.Bytes)
    (S0 : XState) (hJ0 : JX S0) (ps : List (Nat × Array UInt8 × Nat × Array UInt8)) (hleg : LZ4V.Model.FrameLinked.LegalI p dict ps)
    (hcs : p.contentSize = 0 ∨ p.contentSize = (LZ4V.Model.FrameLinked.contentOf (LZ4V.Model.FrameLinked.expandI ps)).length) :
    ∃ F, LZ4V.Spec.FrameL.pFrame E dict F (LZ4V.Model.FrameLinked.frameFromI E hashOf p S0 (LZ4V.Model.FrameLinked.expandI ps)) =
      .ok (LZ4V.Model.FrameLinked.contentOf (LZ4V.Model.FrameLinked.expandI ps), []) :=
  LZ4V.C03.independent_cdict_frame_decodes E ok hashOf p hb hcs64 hd32 dict S0 hJ0 ps hleg hcs

theorem dictionary_frame_linked_blocks_decodes (E : LZ4V.Spec.FrameL.Env) (ok : LZ4V.Model.FrameLinked.EnvOKL E) (hashOf : Array UInt8 → Bool → Nat → Nat)
    (p : LZ4V.Model.FrameFast.Prefs) (hb : 4 ≤ p.bsid ∧ p.bsid ≤ 7) (hcs64 : p.contentSize < 256 ^ 8) (hd32 : p.dictID < 256 ^ 4) (dict : LZ4V.Spec.FrameL.Bytes)
    (S0 : XState) (hJ0 : JX S0) (addr : Nat) (d : Array UInt8) (hT : IsTail d.toList dict) (attached : Bool) (ops : List LZ4V.Model.FrameLinked.LOp)
    (hleg : LZ4V.Model.FrameLinked.LegalSizes p ops) (hcs : p.contentSize = 0 ∨ p.contentSize = (LZ4V.Model.FrameLinked.contentOf ops).length) :
    ∃ F, LZ4V.Spec.FrameL.pFrame E dict F (LZ4V.Model.FrameLinked.frameFrom E hashOf p S0
        ((if attached then LZ4V.Model.FrameLinked.LOp.attach addr d else LZ4V.Model.FrameLinked.LOp.load addr d) :: ops)) =
      .ok (LZ4V.Model.FrameLinked.contentOf ops, []) :=
  LZ4V.C03.linked_frame_with_dictionary_decodes E ok hashOf p hb hcs64 hd32 dict S0 hJ0 addr d hT attached ops hleg hcs

end LZ4V.C12
