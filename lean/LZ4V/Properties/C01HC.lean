import LZ4V.Properties.C01
import LZ4V.HC.HC5
/-!
# C01, HC side — the hash-chain levels (3..9) are lossless for EVERY match finder that honours its contract

`LZ4V/HC` models `LZ4HC_compress_hashChain`: the three-match lazy parser with its `goto` structure (`_Search2`, `_Search3`, the swap back to the first
match, the squeezing of overlapping matches to `OPTIMAL_ML`, the trimming and dropping of the middle match), the end-of-block limits of the look-ahead,
and the block it writes.  The two match finders (`LZ4HC_InsertAndFindBestMatch`, `LZ4HC_InsertAndGetWiderMatch`: hash chains, pattern analysis,
dictionaries) are an ORACLE: any pair of functions whose acceptable answers are byte-verified matches inside the window (`HC.OracleOK`).
Tie: the real parser of an instrumented copy of lib/lz4hc.c logs the finders' answers and every encoded sequence; the model replayed on the logged
answers emits the same sequences and the same block, and the contract is CHECKED on every logged answer of the real finders.
-/
namespace LZ4V.C01
open LZ4V.Spec.Block

/-- whatever the match finders answer within their contract, at whatever level, the block decodes to the input -/
theorem hc_hash_chain_lossless_any_finder (data : List UInt8) (o : HC.Oracle) (hO : HC.OracleOK data o) (fuel : Nat) (blk : List UInt8)
    (h : HC.compress o data fuel = some blk) : decode [] blk = some data :=
  HC.compress_decodes data o hO fuel blk h

/-- every sequence the parser emits — on every path through `_Search2` / `_Search3` — is a byte-verified match of length ≥ 4 at or after the anchor -/
theorem hc_parser_emits_only_verified_matches (data : List UInt8) (o : HC.Oracle) (hO : HC.OracleOK data o) (mflimit n : Nat) :
    ∀ e ∈ (HC.run o mflimit n (.main 0 0)).2, HC.EmitOK data e :=
  HC.hashChain_emits_ok data o hO mflimit n

/-- non-vacuity: the oracle that never finds anything honours the contract, and the model then stores the input as literals -/
example (data : List UInt8) : HC.OracleOK data { best := fun _ => ⟨0, 0⟩, wider := fun s _ _ => (s, ⟨0, 0⟩) } :=
  ⟨fun ip h => by simp at h, fun s l g h => by simp at h⟩

end LZ4V.C01
