import LZ4V.Properties.C01
import LZ4V.HC.HC5
/-!
# C01, HC side — the hash-chain levels (3..9) are lossless for EVERY match finder that honours its contract

`LZ4V/HC` models `LZ4HC_compress_hashChain`: the three-match lazy parser with its `goto` structure (`_Search2`, `_Search3`, the swap back to the first
match, the squeezing of overlapping matches to `OPTIMAL_ML`, the trimming and dropping of the middle match), the end-of-block limits of the look-ahead,
and the block it writes.  The two match finders (`LZ4HC_InsertAndFindBestMatch`, `LZ4HC_InsertAndGetWiderMatch`: hash chains, pattern analysis,
dictionaries) are an ORACLE: any pair of functions whose acceptable answers are byte-verified matches inside the window (`HC.OracleOK`).
Tie: the real parser of an instrumented copy of lib/lz4hc.c logs the finders' answers and every encoded sequence; the model replayed on the logged
answers emits the same sequences and the same block, and the contract is CHECKED on every logged answer of the real finders.
-/
namespace LZ4V.C01
open LZ4V.Spec.Block

/-- whatever the match finders answer within their contract, at whatever level, the block decodes to the input -/
theorem hc_hash_chain_lossless_any_finder (data : List UInt8) (o : HC.Oracle) (hO : HC.OracleOK data o) (fuel : Nat) (blk : List UInt8)
    (h : HC.compress o data fuel = some blk) : decode [] blk = some data :=
  HC.compress_decodes data o hO fuel blk h

/-- every sequence the parser emits — on every path through `_Search2` / `_Search3` — is a byte-verified match of length ≥ 4 at or after the anchor -/
theorem hc_parser_emits_only_verified_matches (data : List UInt8) (o : HC.Oracle) (hO : HC.OracleOK data o) (mflimit n : Nat) :
    ∀ e ∈ (HC.run o mflimit n (.main 0 0)).2, HC.EmitOK data e :=
  HC.hashChain_emits_ok data o hO mflimit n

/-- **every HC level, as a checked certificate**: whatever parser chose them (lz4mid at levels 1-2, the hash-chain parser, the optimal parser at 10-12), if
    the sequences handed to `LZ4HC_encodeSequence` start one after the other from the start of the block and each is a byte-verified match of length ≥ 4
    inside `hist ++ block`, then the block made of them and of the remaining literals decodes to its source.  The judge evaluates both premises
    (`HC.chainB`, the executable `VMatch`) on the sequences logged from the real parsers and compares the real block with this serialisation. -/
theorem hc_any_level_certificate (hist block : List UInt8) (es : List HC.Emit) (a' : Nat) (hc : HC.chainB hist.length es = some a')
    (hok : ∀ e ∈ es, HC.EmitOK (hist ++ block) e) :
    decode hist (serialize (es.map (HC.toSeq (hist ++ block))) ((hist ++ block).drop a')) = some block :=
  HC.chained_verified_sequences_decode hist block es a' (HC.chainB_sound es _ _ hc) hok

/-- non-vacuity: the oracle that never finds anything honours the contract, and the model then stores the input as literals -/
example (data : List UInt8) : HC.OracleOK data { best := fun _ => ⟨0, 0⟩, wider := fun s _ _ => (s, ⟨0, 0⟩) } :=
  ⟨fun ip h => by simp at h, fun s l g h => by simp at h⟩

end LZ4V.C01
