import LZ4V.Properties.C07
import LZ4V.Properties.C03E2E
import LZ4V.Properties.C03Linked
/-!
# C07 — produced frames conform to the frame format: the frame BYTES of the fast levels, as a function

`Model/FrameFast.lean` produces the bytes of the frames `LZ4F_compressBegin/Update/Flush/End` emit on a fresh context at the fast levels with
independent blocks (header descriptor and its checksum byte, block headers, raw fallback, block and content checksums, end mark); it is tied byte for byte
to the real frames (record kind 5 of the frame harness).  The theorems say the independent parser of the specification accepts every such frame.
-/
namespace LZ4V.C07
open LZ4V.Model LZ4V.Model.FrameFast
open LZ4V.Spec.FrameL

/-- the header `LZ4F_compressBegin` writes — any block size id, checksum flags, content size, dictionary id — is accepted by the header parser
    written from doc/lz4_Frame_format.md, which reads back exactly the fields that were asked for (version bits, reserved bits, block-size code,
    the header checksum = second byte of the hash of the descriptor are what the parser checks) -/
theorem produced_header_conforms (E : Env) (p : Prefs) (hb : 4 ≤ p.bsid ∧ p.bsid ≤ 7) (hcs : p.contentSize < 256 ^ 8) (hd : p.dictID < 256 ^ 4) (rest : Bytes) :
    pHeader E (descriptor p ++ [UInt8.ofNat ((E.hash (descriptor p) / 256) % 256)] ++ rest) = .ok (hdrOf p, rest) :=
  header_parses E p hb hcs hd rest

/-- every frame produced by ANY call pattern (updates of any sizes, flushes) under any preferences of that family is ONE complete frame for the
    independent parser — magic, descriptor, every block within the declared maximum, checksums over the right bytes, end mark, content size equal to
    the real size when present — whose content is the concatenation of the fed buffers, nothing left over -/
theorem produced_frame_accepted_by_independent_parser (E : Env) (ok : EnvOK E) (hashOf : Array UInt8 → Bool → Nat → Nat) (p : Prefs)
    (hb : 4 ≤ p.bsid ∧ p.bsid ≤ 7) (hcs64 : p.contentSize < 256 ^ 8) (hd32 : p.dictID < 256 ^ 4) (ops : List FrameC.Op)
    (hops : ∀ op ∈ ops, ∀ b a, op ≠ .begin b a) (f : Bytes) (h : frameOfOps E hashOf p ops = some f)
    (hcs : p.contentSize = 0 ∨ p.contentSize = (FrameC.fed ops).length) :
    ∃ F, pFrame E [] F f = .ok (FrameC.fed ops, []) :=
  (LZ4V.C03.frame_bytes_decode_to_input E ok hashOf p hb hcs64 hd32 ops hops f h hcs).1

end LZ4V.C07
