import LZ4V.Proofs.BlockHub
import LZ4V.Proofs.FastMain
import LZ4V.Proofs.FastXProof
import LZ4V.HC.HC6
/-!
# C06 — compressed blocks conform to the block format (specification part)
-/
namespace LZ4V.C06
open LZ4V.Spec.Block

/-- The independent decoder factors through the format-only parser: a block decodes iff it parses into sequences
    (last one literal-only, input exactly exhausted) whose matches all resolve; so the `endConditions` / `offsetsInRange`
    checks the judge applies to the parse are checks on exactly what the decoder consumes. -/
theorem decode_is_parse_then_exec (hist blk : List UInt8) :
    decode hist blk = ((parse blk).bind (fun p => exec hist p.1 p.2)).map (·.drop hist.length) := by
  unfold decode parse
  rw [decodeAux_eq_parse_exec]

/-- serialisations of parses with legal field ranges parse back to an equivalent meaning (hub theorem) -/
theorem serialize_decodes_to_exec (seqs : List Seq) (last out : List UInt8)
    (hwf : ∀ s ∈ seqs, 4 ≤ s.ml ∧ s.off < 65536) :
    decodeAux (seqs.length + 1) (serialize seqs last) out = exec out seqs last :=
  decodeAux_serialize seqs last out hwf

/-- non-vacuity / sanity of `endConditions`: the 17-byte block for "aaaaaaaaaaaaaaaaaaaa" style data -/
example : endConditions [⟨[97], 1, 7⟩] [1, 2, 3, 4, 5] = true ∧ endConditions [⟨[97], 1, 6⟩] [1, 2, 3, 4, 5] = false ∧
          endConditions [⟨[97], 1, 20⟩] [1, 2, 3, 4] = false := by decide

/-- **Every block the fast compressor (model) emits conforms to the format**: it is the serialisation of a sequence list
    that spells out the input, every match length ≥ 4, every offset in 1..65535, the last 5 bytes literals and the last
    match starting at least 12 bytes before the end — for every input, hash function, table size and acceleration. -/
theorem fast_compressor_conforms (P : LZ4V.Model.Fast.Params) (src : Array UInt8) (tableSize : Nat)
    (hb : P.byU16 = true → src.size < 65547) (ha : 1 ≤ P.accel) (blk : List UInt8)
    (h : LZ4V.Model.Fast.compress P src tableSize = some blk) :
    ∃ seqs last, blk = serialize seqs last ∧ ValidParse [] seqs last src.toList ∧
      (∀ s ∈ seqs, 4 ≤ s.ml ∧ 1 ≤ s.off ∧ s.off ≤ 65535) ∧ endConditions seqs last = true ∧ covered seqs last = src.size :=
  (LZ4V.Model.Fast.compress_good P src tableSize hb ha blk h).parse

/-- the same for the instance executed by the judge next to the real library -/
theorem fast_compressor_conforms_exec (src : Array UInt8) (acceleration : Int) (cap bound : Nat) (blk : List UInt8)
    (h : LZ4V.Model.Fast.compressFast src acceleration cap bound = some blk) :
    ∃ seqs last, blk = serialize seqs last ∧ ValidParse [] seqs last src.toList ∧
      (∀ s ∈ seqs, 4 ≤ s.ml ∧ 1 ≤ s.off ∧ s.off ≤ 65535) ∧ endConditions seqs last = true ∧ covered seqs last = src.size :=
  (LZ4V.Model.Fast.compressFast_good src acceleration cap bound blk h).parse

open LZ4V.Model.FastX in
/-- **Streaming and dictionary blocks of the fast compressor conform too** (model `Model/FastX.lean` of one `LZ4_stream_t`: sources placed anywhere,
    loaded and saved dictionaries, resets): every block returned by any operation sequence is the serialisation of sequences with match lengths ≥ 4
    and offsets in 1..65535 that never reach before the history of the stream (`ValidParse` against it: every match byte-verified inside
    `history ++ source`), whose last 5 bytes are literals, whose last match starts at least 12 bytes before the end, and which spell out exactly the
    source — for every limited-output capacity that lets the call succeed. -/
theorem stream_block_conforms (hashOf : Array UInt8 → Bool → Nat → Nat) (ops : List Op) (k addr : Nat) (data : Array UInt8) (acc : Int) (cap : Nat)
    (blk : List UInt8) (hop : ops[k]? = some (.compress addr data acc cap)) (h : (run hashOf {} ops)[k]? = some (.block (some blk))) :
    ∃ seqs last, blk = serialize seqs last ∧ ValidParse (histAt [] ops k) seqs last (histAt [] ops k ++ data.toList) ∧
      (∀ s ∈ seqs, 4 ≤ s.ml ∧ 1 ≤ s.off ∧ s.off ≤ 65535) ∧ endConditions seqs last = true ∧ covered seqs last = data.size := by
  obtain ⟨seqs, last, e, hwf, hv, h1, h2, h3⟩ := run_parsed hashOf ops {} [] Inv_init k addr data acc cap blk hop h [] _ rfl (Or.inl rfl)
  exact ⟨seqs, last, e, hv, fun s hs => ⟨(hwf s hs).1, h1 s hs, by have := (hwf s hs).2; omega⟩, h2, by rw [h3, Array.length_toList]⟩

/-- **HC, hash-chain levels**: every sequence the parser emits, for every match finder honouring its contract, has a match length ≥ 4 and an offset in
    1..65535 that does not reach before the available history (`off ≤ position` in `history ++ block`).  (The end-of-block restrictions of HC outputs are
    checked per output by the verified parser.) -/
theorem hc_sequences_offsets_conform (data : List UInt8) (o : HC.Oracle) (hO : HC.OracleOK data o) (mflimit n : Nat) (start : Nat) :
    ∀ e ∈ (HC.run o mflimit n (.main start start)).2, 4 ≤ e.len ∧ 1 ≤ e.off ∧ e.off ≤ 65535 ∧ e.off ≤ e.ip := by
  intro e he
  obtain ⟨_, h2, h3, h4, h5, _⟩ := (HC.run_ok data o hO mflimit n (.main start start) (Nat.le_refl _)).2 e he
  exact ⟨h2, h3, h4, h5⟩

/-- **HC, hash-chain levels: the whole block conforms**, for every match finder honouring its contract (byte-verified matches inside the window that end at
    or before `matchlimit` — checked on every answer of the real finders): a valid parse of the source against the history, match lengths ≥ 4, offsets in
    1..65535, the last 5 bytes literals, the last match starting at least 12 bytes before the end.  One-shot (`hist = []`), streaming, dictionary. -/
theorem hc_block_conforms_any_finder (hist block : List UInt8) (o : HC.Oracle) (hO : HC.OracleOK (hist ++ block) o)
    (hL : HC.OracleLim (hist.length + block.length - 5) o) (fuel : Nat) (blk : List UInt8) (h : HC.compressH o hist block fuel = some blk) :
    ∃ seqs last, blk = serialize seqs last ∧ ValidParse hist seqs last (hist ++ block) ∧
      (∀ s ∈ seqs, 4 ≤ s.ml ∧ 1 ≤ s.off ∧ s.off ≤ 65535) ∧ endConditions seqs last = true ∧ covered seqs last = block.length :=
  HC.compressH_conforms hist block o hO hL fuel blk h

end LZ4V.C06
