import LZ4V.Spec.Frame
/-! # C04 — property theorems (in progress) -/
namespace LZ4V.C04
end LZ4V.C04
