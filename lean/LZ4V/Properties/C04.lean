import LZ4V.Proofs.SparseProof
import LZ4V.Proofs.WRProof
import LZ4V.Properties.C20
import LZ4V.Proofs.LegacyProof
import LZ4V.Proofs.CliFrameProof
import LZ4V.Proofs.CliLinkedProof
/-!
# C04 — the CLI round-trips every file under every option set, deterministically

Three pieces of the CLI are logic rather than I/O and are proved here on models tied to the real code by correspondence:

* the **sparse writer** (`LZ4IO_fwriteSparse` / `LZ4IO_fwriteSparseEnd`) leaves exactly the bytes a plain writer leaves,
  for every sequence of decoded buffers (each ≤ 1 GB: `storedSkips` is an `unsigned`, no wrap-around);
* the **write register** makes the archive independent of the order in which workers finish (`-T`, `LZ4_NBWORKERS`, runs);
* the **job splitter** (4 MB jobs / legacy 8 MB blocks) covers the input exactly once, in order.

Everything else (option parsing, file handling, the compressors behind each job) is decided by the option cross-product
correspondence of `vlib/cli.py` against the specification parser.
-/
namespace LZ4V.C04
open LZ4V.Model

/-- **with or without --sparse**: for every sequence of decoded buffers the sparse session leaves exactly the file the
    plain session leaves: the concatenation of the buffers, with no pending hole -/
theorem sparse_equals_plain (bufs : List (List UInt8)) (h : ∀ b ∈ bufs, b.length ≤ Sparse.GB) :
    (Sparse.sparseSession bufs).content = bufs.flatten ∧ (Sparse.sparseSession bufs).hole = 0 ∧
    (Sparse.plainSession bufs).content = bufs.flatten ∧ (Sparse.sparseSession bufs).content = (Sparse.plainSession bufs).content := by
  have hinv : Sparse.Inv (0, ({} : Sparse.SFile)) := ⟨fun h => absurd h (by decide), by decide⟩
  obtain ⟨i1, l1⟩ := Sparse.foldl_spec bufs (0, {}) hinv h
  obtain ⟨e1, e2⟩ := Sparse.sparseEnd_spec _ i1
  have hp := Sparse.plain_spec bufs {} rfl
  have hs : (Sparse.sparseSession bufs).content = bufs.flatten := by
    unfold Sparse.sparseSession
    rw [e1, l1]
    simp [Sparse.L, Sparse.zeros]
  have hpl : (Sparse.plainSession bufs).content = bufs.flatten := by
    unfold Sparse.plainSession
    rw [hp.1]
    rfl
  exact ⟨hs, e2, hpl, by rw [hs, hpl]⟩

/-- no `unsigned` overflow of `storedSkips`: between calls it stays ≤ 2 GB -/
theorem storedSkips_bounded (bufs : List (List UInt8)) (h : ∀ b ∈ bufs, b.length ≤ Sparse.GB) :
    (bufs.foldl Sparse.fwriteSparse (0, {})).1 ≤ 2 * Sparse.GB :=
  (Sparse.foldl_spec bufs (0, {}) ⟨fun h => absurd h (by decide), by decide⟩ h).1.2

/-- **identical for every worker count and on every run**: whatever two orders the compressed blocks of ranks `0..n-1`
    reach the write register in, the bytes written are the same -/
theorem archive_independent_of_completion_order (pay : Nat → List UInt8) (n : Nat) (a1 a2 : List Nat)
    (h1 : ∀ r, r ∈ a1 ↔ r < n) (n1 : a1.Nodup) (h2 : ∀ r, r ∈ a2 ↔ r < n) (n2 : a2.Nodup) :
    (WR.run (a1.map (fun r => (r, pay r)))).out = (WR.run (a2.map (fun r => (r, pay r)))).out := by
  rw [(WR.in_order_once pay n a1 h1 n1).1, (WR.in_order_once pay n a2 h2 n2).1]

/-- **the job splitter covers the input**: the chunks handed to the workers (any positive job size) concatenate to the input -/
theorem jobs_cover_input (jobSize : Nat) (input : List UInt8) :
    (FrameC.chunks jobSize (input.length + 1) input).flatten = input :=
  LZ4V.C20.chunks_flatten jobSize _ input (by omega)

/-- **`lz4 -l` (fast levels) is lossless, end to end**: for EVERY input the archive model (`Model/Legacy.lean`: 8 MB blocks, each compressed by
    `LZ4_compress_fast` on a fresh state and written as `LE32 size | block` after the legacy magic number; byte-identical to the real
    `lz4 -l` on every recorded small archive) exists and decodes, by the stream specification (what `lz4 -d` must write), to exactly the input -/
theorem legacy_archive_round_trips (E : LZ4V.Spec.FrameL.Env) (ok : LZ4V.Model.Legacy.EnvOK E) (level : Int) (input : List UInt8) :
    ∃ a, LZ4V.Model.Legacy.archive level input = some a ∧ LZ4V.Spec.FrameL.Decodes E [] a input := by
  obtain ⟨a, ha⟩ := LZ4V.Model.Legacy.archive_succeeds level input
  exact ⟨a, ha, LZ4V.Model.Legacy.archive_decodes E ok level input a ha⟩

/-- **`lz4 FILE` (default LZ4 frame format, fast levels, independent blocks, `-B4..-B7`, `-BX`, `--[no-]frame-crc`, `--content-size`) is lossless,
    end to end**: for EVERY input the archive model (`Model/CliFrame.lean`: the single-pass `LZ4F_compressFrame_usingCDict` path with the
    regenerated `LZ4F_optimalBSID`, the single-threaded build's streaming path with one update per block-size read; byte-identical to the real
    `lz4` of BOTH builds on every recorded archive of that configuration) exists — in the single-threaded build for every size, in the
    multi-threaded build below one 4 MiB chunk — and decodes, by the stream specification (what `lz4 -d` must write), to exactly the input,
    for every hash function of the fast compressor and every checksum function -/
theorem default_archive_round_trips (E : LZ4V.Spec.FrameL.Env) (ok : LZ4V.Model.FrameFast.EnvOK E) (hashOf : Array UInt8 → Bool → Nat → Nat) (mt : Bool)
    (o : LZ4V.Model.CliFrame.Opts) (hr : 4 ≤ o.bsidReq ∧ o.bsidReq ≤ 7) (src : List UInt8) (hn : src.length < 256 ^ 8)
    (h : mt = false ∨ src.length < LZ4V.Model.CliFrame.mtChunk) :
    ∃ a, LZ4V.Model.CliFrame.archive E hashOf mt o src = some a ∧ LZ4V.Spec.FrameL.Decodes E [] a src := by
  have hs := LZ4V.Model.CliFrame.archive_succeeds E hashOf mt o src h
  cases ha : LZ4V.Model.CliFrame.archive E hashOf mt o src with
  | none => rw [ha] at hs; cases hs
  | some a => exact ⟨a, rfl, LZ4V.Model.CliFrame.archive_decodes E ok hashOf mt o hr src hn a ha⟩

/-- **`lz4 -BD FILE`** (linked blocks, the fast levels, -B4..-B7, -BX, frame checksum on/off, content size; single-threaded build: the streaming path that
    compresses every chunk from one source buffer and saves the history after it; multi-threaded build below 4 MiB and any build below one block: the
    single-pass path over a stable source): whenever the archive model produces an archive it decodes, by the stream specification, to the input.
    `Model/CliLinked.lean` over the linked-frame model; byte-identical to the real `lz4 -BD` of both builds on the recorded archives. -/
theorem linked_archive_round_trips (E : LZ4V.Spec.FrameL.Env) (ok : LZ4V.Model.FrameFast.EnvOK E) (okL : LZ4V.Model.FrameLinked.EnvOKL E)
    (hashOf : Array UInt8 → Bool → Nat → Nat) (mt : Bool) (o : LZ4V.Model.CliFrame.Opts) (hr : 4 ≤ o.bsidReq ∧ o.bsidReq ≤ 7) (src : List UInt8)
    (hn : src.length < 256 ^ 8) (a : List UInt8) (h : LZ4V.Model.CliLinked.archive E hashOf mt o src = some a) :
    LZ4V.Spec.FrameL.Decodes E [] a src :=
  LZ4V.Model.CliLinked.archive_decodes E ok okL hashOf mt o hr src hn a h

-- the premises are satisfiable, the sessions do something
example : (Sparse.sparseSession [[0,0,0,0,0,0,0,0,0,0,0,0,0,0,0,0,65,66,67], [0,0,0], [], [0,0,0,0,0,0,0,0,1]]).content.length = 31 := by decide

end LZ4V.C04
