import LZ4V.Properties.C03
import LZ4V.Proofs.FrameFastE2E
/-!
# C03, end to end — the BYTES of a frame, for any call history, decode to exactly what was fed

`Properties/C03.lean` proves that the blocks cover the input.  Here the whole pipeline is composed, for the configuration
"fast level, independent blocks, no dictionary, compressed updates, fresh context" (`Model/FrameFast.lean`):
call history → which bytes go into which block (`Model/FrameC.lean`) → each block compressed by `LZ4_compress_fast_extState_fastReset`
on the context's one reused LZ4 state, or stored raw (`Model/FastR.lean`) → header, block headers, checksums, end mark →
parsed by the stream specification (`Spec/FrameL.lean`).  The model's frame is byte-identical to the real `LZ4F_compress*` output on
every recorded frame of that configuration.
-/
namespace LZ4V.C03
open LZ4V.Model LZ4V.Model.FrameFast
open LZ4V.Spec.FrameL

/-- for ANY call history (updates of any sizes, flushes), any block size id, checksum flags, autoFlush, dictID, declared content size
    (absent or true), any 32-bit checksum function, any hash function of the compressor: the frame is one complete frame of the stream
    specification whose content is exactly the concatenation of the fed buffers, with nothing left over -/
theorem frame_bytes_decode_to_input (E : Env) (ok : EnvOK E) (hashOf : Array UInt8 → Bool → Nat → Nat) (p : Prefs) (hb : 4 ≤ p.bsid ∧ p.bsid ≤ 7)
    (hcs64 : p.contentSize < 256 ^ 8) (hd32 : p.dictID < 256 ^ 4) (ops : List FrameC.Op)
    (hops : ∀ op ∈ ops, ∀ b a, op ≠ .begin b a) (f : Bytes) (h : frameOfOps E hashOf p ops = some f)
    (hcs : p.contentSize = 0 ∨ p.contentSize = (FrameC.fed ops).length) :
    (∃ F, pFrame E [] F f = .ok (FrameC.fed ops, [])) ∧ Decodes E [] f (FrameC.fed ops) :=
  ⟨frameOfOps_parses E ok hashOf p hb hcs64 hd32 ops hops f h hcs, frameOfOps_stream E ok hashOf p hb hcs64 hd32 ops hops f h hcs⟩

/-- the hypotheses on the environment are satisfiable: any 32-bit checksum function with the block specification decoder -/
theorem environment_exists (hash : Bytes → Nat) (h32 : ∀ l, hash l < 4294967296) : EnvOK (specEnv hash) := specEnv_ok hash h32

end LZ4V.C03
