import LZ4V.Spec.Frame
/-! # C14 — property theorems (in progress) -/
namespace LZ4V.C14
end LZ4V.C14
