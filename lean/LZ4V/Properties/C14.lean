import LZ4V.Proofs.StreamLProof
/-!
# C14 — the CLI never reports success on a failed decode (specification side)

"Exit 0 only if the bytes written equal the specification-defined decoding of the input" needs the specification to
reject what must be rejected.  Proved here for the stream specification `Spec/FrameL.lean`, for every checksum function
and block decoder:

* the decoding of an input, when there is one, is unique: there is exactly one byte string `lz4 -d` may write with exit 0;
* a truncated LZ4 frame is NEVER a valid frame, whatever the cut point (not a property of luck or of checksums: a
  consequence of locality, the parser never looks beyond the end mark);
* a complete LZ4 frame followed by garbage (anything non-empty that does not start with a known magic number) does not decode.

The behaviour of the real binaries on all truncation points, bit flips, trailing garbage, k-th stdio call failing,
`/dev/full`, `--rm`, `-m` is the correspondence of `vlib/cli.py` (the judge decodes the same input with this specification).
-/
namespace LZ4V.C14
open LZ4V.Spec.FrameL

theorem exit0_output_is_determined (E : Env) (dict s c c' : Bytes) (h : Decodes E dict s c) (h' : Decodes E dict s c') : c = c' := h.unique h'

/-- every strict prefix of a valid LZ4 frame is rejected -/
theorem truncated_lz4_frame_never_decodes (E : Env) (dict : Bytes) (F : Nat) (f t u c : Bytes)
    (hf : pFrame E dict F f = .ok (c, [])) (hsplit : f = t ++ u) (hu : u ≠ []) (F' : Nat) (x : Bytes × Bytes) :
    pFrame E dict F' t ≠ .ok x := truncated_frame_rejected E dict F f t u c hf hsplit hu F' x

/-- a valid LZ4 frame followed by undecodable data is rejected -/
theorem frame_followed_by_garbage_never_decodes (E : Env) (dict : Bytes) (F : Nat) (f c g : Bytes)
    (hf : pFrame E dict F f = .ok (c, [])) (hg : g ≠ [])
    (hbad : g.length < 4 ∨ LZ4V.Spec.Frame.isKnownMagic (le (g.take 4)) = false) (c' : Bytes) :
    ¬ Decodes E dict (f ++ g) c' := garbage_after_frame_rejected E dict F f c g hf hg hbad c'

end LZ4V.C14
