import LZ4V.Properties.C11
import LZ4V.Proofs.FastSProof
import LZ4V.Proofs.FastXProof
import LZ4V.HC.HC5
/-!
# C11 — streaming compression round-trips over every history: the contiguous `LZ4_compress_fast_continue` stream, as a function

`Model/FastS.lean` is the state machine of `LZ4_compress_fast_continue` on a stream whose blocks follow one another in memory (tiny-dictionary
branch on the first call, prefix mode afterwards, `dictSmall`, `LZ4_renormDictT` beyond 2 GB of cumulative input, the state updates); it is tied
byte for byte to recorded sessions of the real function.  The theorems hold for EVERY session: any number of calls, any sizes (0 included), any
accelerations, any capacities, any cumulative length, any hash function.
-/
namespace LZ4V.C11
open LZ4V.Spec.Block LZ4V.Model.FastS

/-- every block decodes to its source against everything compressed before it on the stream (contiguous prefix, `LZ4_setStreamDecode`) -/
theorem contiguous_fast_stream_round_trips (hashOf : Array UInt8 → Bool → Nat → Nat) (calls : List (Array UInt8 × Int × Nat))
    (k : Nat) (hk : k < calls.length) (blk : List UInt8) (h : (session hashOf {} calls)[k]? = some (some blk)) :
    decode (prior calls k) blk = some (calls[k]).1.toList := by
  have := session_spec hashOf calls {} JS_init k hk blk h
  simpa using this

/-- … and against ANY window of the preceding bytes that is at least 65535 bytes long (ring-buffer decoder, sliding history, explicit
    dictionary made of the last 64 KB): the compressor never refers further back, wherever its indexes and its dictionary stand -/
theorem contiguous_fast_stream_needs_64KB_only (hashOf : Array UInt8 → Bool → Nat → Nat) (calls : List (Array UInt8 × Int × Nat))
    (k : Nat) (hk : k < calls.length) (blk : List UInt8) (h : (session hashOf {} calls)[k]? = some (some blk))
    (pre w : List UInt8) (hw : prior calls k = pre ++ w) (hlen : 65535 ≤ w.length) :
    decode w blk = some (calls[k]).1.toList :=
  session_window_spec hashOf calls {} JS_init k hk blk h pre w (by simpa using hw) hlen

/-- the invariant the two theorems rest on holds in every reachable state of a stream (table entries are indexes `≤ currentOffset`, the
    dictionary is the tail of what was compressed and no longer than `currentOffset`), through `LZ4_renormDictT` too -/
theorem stream_state_invariant (hashOf : Array UInt8 → Bool → Nat → Nat) (S : SState) (data : Array UInt8) (acc : Int) (cap : Nat) (hJ : JS S) :
    JS (call hashOf S data acc cap).1 ∧ JS (renorm S data.size) :=
  ⟨(call_spec hashOf S data acc cap hJ).1, renorm_JS S data.size hJ⟩

/-- non-vacuity: a two-call session on a toy hash whose second block is one match into the first -/
example :
    let h : Array UInt8 → Bool → Nat → Nat := fun s _ p => (s.getD p 0).toNat
    let a : Array UInt8 := #[1,2,3,4,5,6,7,8,9,10,11,12,13,14,15,16,17,18,19,20]
    (session h {} [(a, 1, 100), (a, 1, 100)]).length = 2 ∧
    ((session h {} [(a, 1, 100), (a, 1, 100)])[1]?).bind id = some [0x0b, 20, 0, 0x50, 16, 17, 18, 19, 20] := by
  decide +kernel

/-! ## any placement: ring buffers, double buffers, `LZ4_saveDict` (Model/FastX.lean) -/

open LZ4V.Model.FastX in
/-- **sources placed anywhere**: for every life of a stream — blocks right after the previous one, somewhere else (double buffer, ring buffer), over
    the beginning of the dictionary space (a ring that wraps), `LZ4_saveDict` of any size to any place, dictionary loads, fast resets — every block
    returned decodes to its source against the history of the stream since the last reset / load, and against any tail of it of at least 65535
    bytes (what a decoder with `LZ4_setStreamDecode`, a ring of `LZ4_decoderRingBufferSize` bytes or an explicit dictionary holds) -/
theorem placed_fast_stream_round_trips (hashOf : Array UInt8 → Bool → Nat → Nat) (ops : List Op) (k addr : Nat) (data : Array UInt8) (acc : Int) (cap : Nat)
    (blk : List UInt8) (hop : ops[k]? = some (.compress addr data acc cap)) (h : (run hashOf {} ops)[k]? = some (.block (some blk)))
    (pre w : List UInt8) (hw : histAt [] ops k = pre ++ w) (hlen : pre = [] ∨ 65535 ≤ w.length) :
    decode w blk = some data.toList :=
  (run_parsed hashOf ops {} [] Inv_init k addr data acc cap blk hop h pre w hw hlen).decode

open LZ4V.Model.FastX in
/-- the invariant behind it (table entries ≤ currentOffset, dictSize ≤ currentOffset, the dictionary — own or attached — a tail of the history) is kept
    by every operation from every state -/
theorem placed_stream_invariant (hashOf : Array UInt8 → Bool → Nat → Nat) (S : XState) (H : List UInt8) (op : Op) (hI : Inv S H)
    (hne : (step hashOf S op).2 ≠ .block none) : Inv (step hashOf S op).1 (hist H op) :=
  step_spec hashOf S H op hI hne

/-- **HC streaming at the hash-chain levels (3..9)**: a block written by `LZ4_compress_HC_continue` (model `LZ4V/HC`: the parser of
    `LZ4HC_compress_hashChain` run on `history ++ block` from the start of the block) decodes to its source against the history — contiguous prefix,
    external dictionary segment, loaded dictionary: where a match lies is the finders' business — for EVERY match finder that honours its contract.
    Tie: blocks of real sessions (contiguous, double buffer, gaps, `LZ4_loadDictHC`, level changes) with the finders' answers logged from an
    instrumented copy of lib/lz4hc.c: same sequences, same block, contract checked on every answer. -/
theorem hc_stream_block_decodes_any_finder (hist block : List UInt8) (o : HC.Oracle) (hO : HC.OracleOK (hist ++ block) o) (fuel : Nat) (blk : List UInt8)
    (h : HC.compressH o hist block fuel = some blk) : decode hist blk = some block :=
  HC.compressH_decodes hist block o hO fuel blk h

end LZ4V.C11
