import LZ4V.Properties.C02
import LZ4V.Spec.Block
/-!
# C16 — partial decoding returns exactly the requested prefix

Status: the bound half (`ret ≤ min target capacity`, nothing beyond that is touched, no fault, for every input) is a
theorem on the decoder model; the exact-prefix half is decided per call by the correspondence and the judge
(every target 0..|D|+2 for small contents) until the refinement proof lands.
-/
namespace LZ4V.C16
open LZ4V.Model LZ4V.Model.Decode

/-- full statement, kept visible -/
def FullStatement : Prop :=
  ∀ (fastLoop : Bool) (blk : List UInt8) (D : List UInt8) (dstInit : Bytes) (target : Nat),
    LZ4V.Spec.Block.decode [] blk = some D → min target D.length ≤ dstInit.size →
      ∃ r, decompress_safe_partial fastLoop blk.toArray dstInit target = .ok r ∧ r.ret = min target D.length ∧
        r.buf.toList.take (min target D.length) = D.take (min target D.length)

/-- never more than `min target capacity`, for every byte string (valid or not), no fault -/
theorem partial_never_exceeds (fastLoop : Bool) (src dstInit : Bytes) (target : Nat) :
    ∃ r, decompress_safe_partial fastLoop src dstInit target = .ok r ∧ r.ret ≤ (min target dstInit.size : Nat) :=
  LZ4V.C02.decompress_safe_partial_memory_safe fastLoop src dstInit target

theorem partial_usingDict_never_exceeds (fastLoop : Bool) (src dstInit dict : Bytes) (pl : Placement) (target : Nat) :
    ∃ r, decompress_safe_partial_usingDict fastLoop src dstInit dict pl target = .ok r ∧ r.ret ≤ (min target dstInit.size : Nat) :=
  LZ4V.C02.decompress_safe_partial_usingDict_memory_safe fastLoop src dstInit dict pl target

/-- non-vacuity: partial decoding of the 10-byte block with target 7 returns 7 -/
example : (decompress_safe_partial true #[0x10, 0x41, 0x01, 0x00, 0x50, 0x76, 0x77, 0x78, 0x79, 0x7a] (Array.replicate 24 0) 7).toOption.map (·.ret) = some 7 := by
  set_option maxRecDepth 20000 in decide

end LZ4V.C16
