import LZ4V.Properties.C02
import LZ4V.Proofs.DecodeFun10
/-!
# C05 — every spec-valid block decodes to the specified content in every decoder (scratch: to replace C05.lean)
-/
namespace LZ4V.C05
open LZ4V.Spec.Block LZ4V.Model LZ4V.Model.Decode

/-- the part of the dictionary the decoder can reference: all of it, except that a dictionary placed right in front of the
    destination is cut to its last 64 KB -/
def visibleDict (dict : Bytes) (pl : Placement) : List UInt8 :=
  match pl with
  | .contiguous => if dict.size ≥ 65536 - 1 then dict.toList.drop (dict.size - 65536) else dict.toList
  | .external => dict.toList

theorem usingDict_wf2 (fastLoop : Bool) (src dict dst : Bytes) (pl : Placement) :
    WF2 (usingDictEnv fastLoop false src dict pl) (((if (usingDictEnv fastLoop false src dict pl).dst0 = 0 then #[] else dict) ++ dst).size) := by
  refine ⟨LZ4V.C02.usingDictEnv_wf fastLoop false src dict dst pl, ?_, ?_⟩
  · unfold usingDictEnv
    by_cases h0 : dict.size = 0
    · simp only [h0, if_true]; intro h; cases h
    · simp only [h0, if_false]
      cases pl with
      | contiguous =>
        by_cases h64 : dict.size ≥ 65536 - 1
        · simp only [h64, if_true]; intro _; omega
        · simp only [h64, if_false]; intro h; cases h
      | external => intro h; cases h
  · unfold usingDictEnv
    by_cases h0 : dict.size = 0
    · simp only [h0, if_true]
    · simp only [h0, if_false]
      cases pl with
      | contiguous => by_cases h64 : dict.size ≥ 65536 - 1 <;> simp only [h64, if_true, if_false]
      | external => rfl

theorem usingDictEnv_src (fastLoop partialD : Bool) (src dict : Bytes) (pl : Placement) : (usingDictEnv fastLoop partialD src dict pl).src = src := by
  unfold usingDictEnv
  by_cases h0 : dict.size = 0
  · simp only [h0, if_true]
  · simp only [h0, if_false]
    cases pl with
    | contiguous => by_cases h64 : dict.size ≥ 65536 - 1 <;> simp only [h64, if_true, if_false]
    | external => rfl

theorem extract_append_dict (dict dst : Bytes) (a : Nat) :
    ((dict ++ dst).extract a dict.size).toList = dict.toList.drop a := by
  apply List.ext_getElem?
  intro i
  simp only [Array.getElem?_toList, List.getElem?_drop]
  rw [Array.getElem?_extract]
  by_cases h : i < dict.size - a
  · rw [if_pos (by simpa using h), Array.getElem?_append_left (by omega)]
  · rw [if_neg (by simpa using h)]
    rw [Array.getElem?_eq_none (by omega)]

theorem histOf_usingDict (fastLoop : Bool) (src dict dst : Bytes) (pl : Placement) :
    histOf (usingDictEnv fastLoop false src dict pl) ((if (usingDictEnv fastLoop false src dict pl).dst0 = 0 then #[] else dict) ++ dst) =
      visibleDict dict pl := by
  unfold histOf usingDictEnv visibleDict
  by_cases h0 : dict.size = 0
  · have : dict.toList = [] := by apply List.eq_nil_of_length_eq_zero; simpa using h0
    simp only [h0, if_true, this]
    have e : ((#[] : Bytes) ++ dst).extract (Int.toNat 0) 0 = #[] := by simp
    cases pl with
    | contiguous => dsimp only; rw [if_neg (by omega)]; simp
    | external => simp
  · simp only [h0, if_false]
    cases pl with
    | contiguous =>
      by_cases h64 : dict.size ≥ 65536 - 1
      · simp only [h64, if_true, h0, if_false]
        rw [List.nil_append, extract_append_dict, show ((dict.size : Int) - 65536).toNat = dict.size - 65536 by omega]
      · simp only [h64, if_false, h0]
        rw [List.nil_append, extract_append_dict]
        simp
    | external => simp

theorem visibleDict_suffix (dict : Bytes) (pl : Placement) : ∃ pre, dict.toList = pre ++ visibleDict dict pl := by
  unfold visibleDict
  cases pl with
  | contiguous =>
    dsimp only
    split
    · exact ⟨dict.toList.take (dict.size - 65536), (List.take_append_drop _ _).symm⟩
    · exact ⟨[], rfl⟩
  | external => exact ⟨[], rfl⟩

/-- the destination part of the buffer, read back -/
theorem dst_part (pre _dst : Bytes) (b : Bytes) (n : Nat) (hn : pre.size + n ≤ b.size) :
    ((b.extract pre.size b.size).toList.take n) = (b.extract pre.size (pre.size + n)).toList := by
  apply List.ext_getElem?
  intro i
  by_cases hi : i < n
  · rw [List.getElem?_take_of_lt hi]
    simp only [Array.getElem?_toList]
    rw [Array.getElem?_extract, Array.getElem?_extract, if_pos (by omega), if_pos (by omega)]
  · rw [List.getElem?_eq_none (by simp; omega), List.getElem?_eq_none (by simp; omega)]

/-- **`LZ4_decompress_safe_usingDict` (prefix or external dictionary, any size), converse**: success means the specification's content -/
theorem decompress_safe_usingDict_conv (fastLoop : Bool) (src dstInit dict : Bytes) (pl : Placement) (r : Result)
    (h : decompress_safe_usingDict fastLoop src dstInit dict pl = .ok r) (hret : 0 ≤ r.ret) :
    decode dict.toList src.toList = some (r.buf.toList.take r.ret.toNat) ∨ (∃ f, HasZero f src.toList) := by
  unfold decompress_safe_usingDict at h
  dsimp only at h
  have hw2 := usingDict_wf2 fastLoop src dict dstInit pl
  have hps := LZ4V.C02.usingDictEnv_prefix_size fastLoop false src dict pl
  cases hg : generic (usingDictEnv fastLoop false src dict pl) ((if (usingDictEnv fastLoop false src dict pl).dst0 = 0 then #[] else dict) ++ dstInit) with
  | error e => rw [hg] at h; cases h
  | ok r0 =>
    rw [hg] at h
    simp only [Except.ok.injEq] at h
    subst h
    dsimp only at hret ⊢
    have hsrc := usingDictEnv_src fastLoop false src dict pl
    obtain ⟨r', hr', hr2, hr3⟩ := generic_total _ _ hw2.wf
    rw [hg] at hr'
    simp only [Except.ok.injEq] at hr'
    subst hr'
    rcases generic_conv _ _ hw2 r0 hg hret with hc | hz
    · left
      rw [histOf_usingDict, hsrc] at hc
      obtain ⟨pre, hpre⟩ := visibleDict_suffix dict pl
      rw [hpre, decode_history_superset pre _ _ _ hc, ← hps]
      congr 1
      rw [dst_part _ dstInit r0.buf r0.ret.toNat (by
        rw [hr2]; simp only [Array.size_append] at hr3 ⊢; omega)]
    · right
      rw [hsrc] at hz
      exact hz

/-- **`LZ4_decompress_safe_usingDict`, forward**: a block that is valid under the format document (the specification decodes it against
    the visible dictionary, end-of-block rules hold) is decoded to exactly its content, for any capacity that holds it -/
theorem decompress_safe_usingDict_fwd (fastLoop : Bool) (blk : List UInt8) (dstInit dict : Bytes) (pl : Placement) (D : List UInt8)
    (seqs : List Seq) (last : List UInt8) (hdec : decode (visibleDict dict pl) blk = some D) (hparse : parse blk = some (seqs, last))
    (hend : endConditions seqs last = true) (hroom : D.length ≤ dstInit.size) (hcap : 0 < dstInit.size) :
    ∃ r, decompress_safe_usingDict fastLoop blk.toArray dstInit dict pl = .ok r ∧ r.ret = D.length ∧ r.buf.toList.take D.length = D := by
  have hw2 := usingDict_wf2 fastLoop blk.toArray dict dstInit pl
  have hps := LZ4V.C02.usingDictEnv_prefix_size fastLoop false blk.toArray dict pl
  have hsrc := usingDictEnv_src fastLoop false blk.toArray dict pl
  have hh := histOf_usingDict fastLoop blk.toArray dict dstInit pl
  unfold decode at hdec
  cases hda : decodeAux (blk.length + 1) blk (visibleDict dict pl) with
  | none => rw [hda] at hdec; cases hdec
  | some fin =>
    rw [hda] at hdec
    simp only [Option.map_some, Option.some.injEq] at hdec
    have hexec : exec (visibleDict dict pl) seqs last = some fin := by
      have := decodeAux_eq_parse_exec (blk.length + 1) blk (visibleDict dict pl)
      unfold parse at hparse
      rw [hparse, hda] at this
      exact this.symm
    have hfl : fin.length = (visibleDict dict pl).length + D.length := by
      have := exec_length_ge seqs (visibleDict dict pl) last fin hexec
      rw [← hdec, List.length_drop]; omega
    have hvt := vtail_of_valid (((if (usingDictEnv fastLoop false blk.toArray dict pl).dst0 = 0 then #[] else dict) ++ dstInit).size)
      (blk.length + 1) blk (visibleDict dict pl) seqs last fin (usingDictEnv fastLoop false blk.toArray dict pl).dst0 hparse hexec
      (EC_of_endConditions seqs last hend) (by simp only [Array.size_append]; omega)
    obtain ⟨r, outf, h1, h2, h3, h4, h5⟩ := generic_fwd (usingDictEnv fastLoop false blk.toArray dict pl) _ hw2
      (by simp only [Array.size_append]; omega) (blk.length + 1) (by rw [hh, hsrc]; simpa using hvt)
    rw [hh, hsrc] at h2
    rw [hh] at h5
    rw [hda] at h2
    simp only [Option.some.injEq] at h2
    subst h2
    rw [hdec] at h5
    unfold decompress_safe_usingDict
    dsimp only
    rw [h1]
    obtain ⟨r', hr', hr2, hr3⟩ := generic_total _ _ hw2.wf
    rw [h1] at hr'
    simp only [Except.ok.injEq] at hr'
    subst hr'
    have hlen : D.length = r.ret.toNat := by
      have := congrArg List.length h5
      simp only [Array.length_toList, Array.size_extract] at this
      simp only [Array.size_append] at hr3 h4
      omega
    refine ⟨_, rfl, by dsimp only; omega, ?_⟩
    dsimp only
    have hfinal := dst_part (if (usingDictEnv fastLoop false blk.toArray dict pl).dst0 = 0 then #[] else dict) dstInit r.buf r.ret.toNat
      (by rw [h4]; simp only [Array.size_append] at hr3 ⊢; omega)
    rw [hps] at hfinal
    rw [hlen, hfinal]
    exact h5.symm

end LZ4V.C05
