import LZ4V.Properties.C02
import LZ4V.Proofs.BlockHub
/-!
# C05 — every spec-valid block decodes to the specified content in every decoder

Status: the *specification side* and the *safety side* are theorems; the refinement between the decoder model and the
specification (both directions) is being carried over from the design-phase prototype and is, until then, decided per
call by the correspondence (model = real decoder on every call) together with the judge (real decoder = specification
on every spec-generated block).  `FullStatement` keeps the full claim visible.
-/
namespace LZ4V.C05
open LZ4V.Spec.Block LZ4V.Model LZ4V.Model.Decode

/-- the full property (forward and converse), for the decoder model -/
def FullStatement : Prop :=
  ∀ (fastLoop : Bool) (blk : List UInt8) (dstInit : Bytes),
    -- forward: a block the specification decodes to `D`, with room for `D`, is decoded to exactly `D`
    (∀ D, decode [] blk = some D → D.length ≤ dstInit.size →
        ∃ r, decompress_safe fastLoop blk.toArray dstInit = .ok r ∧ (r.ret = D.length → (r.buf.toList.take D.length = D))) ∧
    -- converse: success means the specified content
    (∀ r, decompress_safe fastLoop blk.toArray dstInit = .ok r → 0 ≤ r.ret →
        decode [] blk = some (r.buf.toList.take r.ret.toNat))

/-- the converse at full strength is false of the unchanged code: offset 0 is accepted and zero-filled (finding F7a).
    Witness on the *model*: the 10-byte block below returns 10, while the specification rejects it. -/
theorem converse_fails_on_offset_zero :
    ∃ blk : List UInt8, decode [] blk = none ∧
      (decompress_safe true blk.toArray (Array.replicate 24 0)).toOption.map (·.ret) = some 10 := by
  refine ⟨[0x10, 0x41, 0x00, 0x00, 0x50, 0x76, 0x77, 0x78, 0x79, 0x7a], by decide, ?_⟩
  set_option maxRecDepth 20000 in decide

/-- specification side: a spec-valid block is the serialisation of a parse whose meaning is its content -/
theorem spec_decode_is_exec_of_parse (hist blk : List UInt8) :
    decode hist blk = ((parse blk).bind (fun p => exec hist p.1 p.2)).map (·.drop hist.length) := by
  unfold decode parse; rw [decodeAux_eq_parse_exec]

/-- safety side (from C02): whatever the block, every decoder entry point returns without fault, result ≤ capacity -/
theorem decoders_total (fastLoop : Bool) (src dstInit dict : Bytes) (pl : Placement) :
    ∃ r, decompress_safe_usingDict fastLoop src dstInit dict pl = .ok r ∧ r.ret ≤ (dstInit.size : Int) :=
  LZ4V.C02.decompress_safe_usingDict_memory_safe fastLoop src dstInit dict pl

end LZ4V.C05
