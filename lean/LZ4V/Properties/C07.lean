import LZ4V.Spec.Frame
/-! # C07 — property theorems (in progress) -/
namespace LZ4V.C07
end LZ4V.C07
