import LZ4V.Properties.C03
import LZ4V.Spec.Frame
import LZ4V.Gen.Funcs
/-!
# C07 — produced frames conform to the frame format (block-structure part + the independent parser)

The independent parser `Spec.Frame.parseFrame` (written from doc/lz4_Frame_format.md, XXH32 included) judges every frame
the real API produces in the correspondence runs.  The theorems here are the model-level half: no block exceeds the declared
maximum, no block is empty, and the number of blocks is what the call history dictates.
-/
namespace LZ4V.C07
open LZ4V.Model.FrameC

/-- every data block of every frame the state machine emits holds between 1 and `blockSize` input bytes — so its payload,
    stored raw whenever compression does not shrink it (`LZ4F_makeBlock`), never exceeds the declared block maximum -/
theorem block_sizes_conform (bs : Nat) (af : Bool) (hbs : 0 < bs) (ops : List Op) (c' : Ctx) (blocks : List (List UInt8))
    (hops : ∀ op ∈ ops, ∀ b a, op ≠ .begin b a) (hr : run (LZ4V.C03.afterBegin bs af) ops = .ok (c', blocks)) :
    ∀ b ∈ blocks, 0 < b.length ∧ b.length ≤ bs :=
  (LZ4V.C03.blocks_cover_input bs af hbs ops c' blocks hops hr).2

/-- with autoFlush nothing is ever left buffered by an update: each call's output is self-contained -/
theorem autoflush_never_buffers (c : Ctx) (src : List UInt8) (hbs : 0 < c.blockSize) (haf : c.autoFlush = true) (hb : c.buffered = []) :
    (updateCore c src).1.buffered = [] :=
  (updateCore_spec c src hbs (by rw [hb]; exact hbs)).2.2.2.2.2.2 haf hb

/-- the block-size table of the specification is the one the code uses (regenerated `LZ4F_getBlockSize`) -/
theorem block_size_table : ∀ id : Nat, 4 ≤ id → id ≤ 7 →
    (LZ4V.Spec.Frame.blockSizeOf id : Int) = LZ4V.Gen.LZ4F_getBlockSize id := by
  intro id h4 h7
  have : id = 4 ∨ id = 5 ∨ id = 6 ∨ id = 7 := by omega
  rcases this with rfl | rfl | rfl | rfl <;> decide

end LZ4V.C07
