import LZ4V.Proofs.FastDSCap
import LZ4V.Proofs.Arith
/-!
# C17 — destSize compressors fill the budget with a decodable prefix (arithmetic of the `fillOutput` adaptations)

The two adaptation formulas of `LZ4_compress_generic_validated` (`lz4.c`, `_last_literals` and the match-length
reduction) over the regenerated constants.  `space` is `olimit - op` at the point where the formula is applied.
-/
namespace LZ4V.C17
open LZ4V.Spec.Block LZ4V.Gen

/-- `lastRun = (olimit-op) - 1; lastRun -= (lastRun + 256 - RUN_MASK) / 256;` -/
def adaptLastRun (space : Nat) : Nat :=
  let lastRun := space - 1
  lastRun - (lastRun + 256 - RUN_MASK) / 256

/-- the adapted last run, with its token and length bytes, fits the remaining space exactly-or-less: r ≤ target -/
theorem adaptLastRun_fits (space : Nat) (lits : List UInt8) (h : 1 ≤ space) (hl : lits.length = adaptLastRun space) :
    (serLast lits).length ≤ space := by
  have hr : RUN_MASK = 15 := rfl
  rw [serLast_length, ext_length, hl]
  unfold adaptLastRun
  simp only [hr]
  split <;> omega

/-- and it wastes at most one byte of the budget -/
theorem adaptLastRun_fills (space : Nat) (lits : List UInt8) (h : 1 ≤ space) (hl : lits.length = adaptLastRun space) :
    space ≤ (serLast lits).length + 1 := by
  have hr : RUN_MASK = 15 := rfl
  rw [serLast_length, ext_length, hl]
  unfold adaptLastRun
  simp only [hr]
  split <;> omega

/-- `newMatchCode = 15 - 1 + ((olimit - op) - 1 - LASTLITERALS) * 255` -/
def reducedMatchCode (space : Nat) : Nat := 15 - 1 + (space - 1 - LASTLITERALS) * 255

/-- after the reduction the match-length bytes plus the mandatory `1 + LASTLITERALS` still fit
    (`space ≥ 9` is what the `_next_match` guard `op + 2 + 1 + MFLIMIT - MINMATCH ≤ olimit` leaves after the offset) -/
theorem reducedMatchCode_fits (space : Nat) (h : 1 + LASTLITERALS ≤ space) :
    (ext (reducedMatchCode space)).length + 1 + LASTLITERALS ≤ space := by
  have hl : LASTLITERALS = 5 := rfl
  rw [ext_length]
  unfold reducedMatchCode
  simp only [hl] at h ⊢
  split <;> omega

/-- the guard that sends control to `_last_literals` before a match is started keeps the last match ≥ MFLIMIT from the end:
    `2 (offset) + 1 (token) + MFLIMIT - MINMATCH` bytes are reserved, i.e. room for a token and `LASTLITERALS + (MFLIMIT - MINMATCH - LASTLITERALS)`. -/
theorem next_match_reserve : 2 + 1 + MFLIMIT - MINMATCH = 1 + (2 + 1 + LASTLITERALS) + 2 := by decide

/-- non-vacuity: with 20 bytes of space the last run is 19 literals... minus one length byte = 18, emitted in 20 bytes -/
example : adaptLastRun 20 = 18 ∧ (serLast (List.replicate 18 (0 : UInt8))).length = 20 := by
  refine ⟨by decide, ?_⟩
  rw [serLast_length, ext_length, List.length_replicate, if_pos (by omega)]

/-- **destSize consumes a decodable prefix** (model of `LZ4_compress_generic_validated` with `fillOutput`: the three budget tests,
    the shortening of a match with the clearing of hash positions beyond the new `ip`, the adapted last run, `*srcSizePtr`): the block
    decodes, by the specification decoder, to EXACTLY the first `consumed` bytes of the input, for every input, target size and
    acceleration.  The executable instance is byte-identical to `LZ4_compress_destSize` / `LZ4_compress_destSize_extState` on every
    recorded call (consumed size and block). -/
theorem destSize_decodes_to_consumed_prefix (src : Array UInt8) (acceleration : Int) (target consumed : Nat) (blk : List UInt8)
    (h : LZ4V.Model.FastDS.compressDestSize src acceleration target = some (consumed, blk)) :
    consumed ≤ src.size ∧ LZ4V.Spec.Block.decode [] blk = some (src.toList.take consumed) :=
  LZ4V.Model.FastDS.compressDestSize_prefix src acceleration target consumed blk h

/-- **destSize never exceeds its target**: the block the model returns is at most `target` bytes long (its output position is exactly the
    serialised length; after every sequence `1 + LASTLITERALS` bytes of the budget remain; the last run is adapted to what is left) -/
theorem destSize_fits_target (src : Array UInt8) (acceleration : Int) (target consumed : Nat) (blk : List UInt8)
    (h : LZ4V.Model.FastDS.compressDestSize src acceleration target = some (consumed, blk)) : blk.length ≤ target :=
  LZ4V.Model.FastDS.compressDestSize_fits src acceleration target consumed blk h

end LZ4V.C17
