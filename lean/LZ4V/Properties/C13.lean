import LZ4V.Spec.Frame
/-! # C13 — property theorems (in progress) -/
namespace LZ4V.C13
end LZ4V.C13
