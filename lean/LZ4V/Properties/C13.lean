import LZ4V.Proofs.WRProof
import LZ4V.Gen.Calls
/-!
# C13 — multi-threaded CLI pipelines are correct under every thread schedule (model part)

`Model.Pool.Step` has one constructor per critical section of `programs/threadpool.c` as used by the compression
pipelines of `programs/lz4io.c`; ANY enabled step may fire, so the theorems quantify over every schedule, every choice of
which waiter a signal wakes, and spurious wake-ups (a spurious wake-up re-tests a guard and changes no state).
Queue capacity and ring sizes come from the regenerated `Gen` layer / the `TPool_create` call sites.
-/
namespace LZ4V.C13
open LZ4V.Model LZ4V.Model.Pool

/-- queue size of the compression pool = second argument of the first `TPool_create` call of the pipeline, read from the
    source by the translator (0 when it is not an integer literal: the theorems below then do not check) -/
def queueSizeOf (calls : List (List (Option Nat))) : Nat :=
  match calls with
  | (_ :: some q :: _) :: _ => q
  | _ => 0

def lz4fQueueSize : Nat := queueSizeOf LZ4V.Gen.Calls.LZ4IO_compressFilename_extRess_MT_TPool_create
def legacyQueueSize : Nat := queueSizeOf LZ4V.Gen.Calls.LZ4IO_compressLegacy_internal_TPool_create

/-- LZ4F compression pipeline: for every worker count, number of chunks, last-chunk shape and schedule, a job that pushes
    into its own pool (the reader chain) never finds the queue full (capacity from `TPool_create(nbWorkers, <literal>)`) -/
theorem lz4f_reader_chain_never_blocks (nFull : Nat) (part : Bool) (w : Nat) (s : State)
    (h : ReachFrom (igniteLZ4F nFull part w lz4fQueueSize) s) : s.queue.length < s.cap :=
  push_never_blocks (igniteLZ4F_inv nFull part w lz4fQueueSize) (by show 3 ≤ lz4fQueueSize; decide) h

/-- legacy compression pipeline, same statement -/
theorem legacy_reader_chain_never_blocks (nFull : Nat) (part : Bool) (w : Nat) (s : State)
    (h : ReachFrom (igniteLegacy nFull part w legacyQueueSize) s) : s.queue.length < s.cap :=
  push_never_blocks (igniteLegacy_inv nFull part w legacyQueueSize) (by show 3 ≤ legacyQueueSize; decide) h

theorem reach_workers {s0 s : State} (h : ReachFrom s0 s) : s.workers = s0.workers := by
  induction h with
  | refl => rfl
  | step _ st ih => cases st <;> simpa using ih

/-- **no deadlock**: every reachable state of the compression pool that still has work (a queued or running job) has an
    enabled step, for every worker count ≥ 1 -/
theorem compression_pool_deadlock_free (s0 s : State) (h0 : Inv s0) (hc : 3 ≤ s0.cap) (hw : 1 ≤ s0.workers)
    (h : ReachFrom s0 s)
    (hwork : s.queue ≠ [] ∨ 0 < s.runC ∨ s.runR.isSome) : ∃ s', Step s s' := by
  have hroom := push_never_blocks h0 hc h
  have hws := reach_workers h
  by_cases hC : 0 < s.runC
  · exact ⟨_, Step.finC s hC⟩
  · cases hR : s.runR with
    | some r =>
      obtain ⟨k, pc⟩ := r
      cases pc with
      | start =>
        by_cases hk : k < s.nFull ∨ (k = s.nFull ∧ s.partialLast)
        · exact ⟨_, Step.pushC s k hR hk hroom⟩
        · exact ⟨_, Step.eof s k hR hk⟩
      | pushedC =>
        by_cases hk : k < s.nFull
        · exact ⟨_, Step.pushR s k hR hk hroom⟩
        · exact ⟨_, Step.lastC s k hR hk⟩
      | done => exact ⟨_, Step.finR s k hR⟩
    | none =>
      -- nothing is running: a queued job can be popped because at least one worker is free
      have hq : s.queue ≠ [] := by
        rcases hwork with h | h | h
        · exact h
        · exact absurd h hC
        · rw [hR] at h; simp at h
      have hb : busy s < s.workers := by
        unfold busy; rw [hR]; simp; omega
      cases hql : s.queue with
      | nil => exact absurd hql hq
      | cons j rest =>
        cases j with
        | C k => exact ⟨_, Step.popC s k rest hql hb⟩
        | R k => exact ⟨_, Step.popR s k rest hql hb hR⟩

/-- **each block written exactly once, in input order**, whatever order the compression workers finish in -/
theorem blocks_written_in_order_once (pay : Nat → List UInt8) (n : Nat) (arrival : List Nat)
    (hall : ∀ r, r ∈ arrival ↔ r < n) (hnd : arrival.Nodup) :
    (WR.run (arrival.map (fun r => (r, pay r)))).out = (List.range n).map pay ∧
    (WR.run (arrival.map (fun r => (r, pay r)))).stored = [] :=
  ⟨(WR.in_order_once pay n arrival hall hnd).1, (WR.in_order_once pay n arrival hall hnd).2.1⟩

/-- non-vacuity: three jobs arriving in the order 2, 0, 1 are written 0, 1, 2 -/
example : (WR.run [(2, [30]), (0, [10]), (1, [20])]).out = [[10], [20], [30]] := by decide

end LZ4V.C13
