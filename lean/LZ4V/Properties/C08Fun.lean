import LZ4V.Proofs.FrameDS7
import LZ4V.Properties.C08
/-!
# C08 (and the decoding halves of C03 / C19) — `LZ4F_decompress` computes the frame specification, whatever the chunking

`Model/FrameDS.lean` mirrors the resumable `dStage` machine of `LZ4F_decompress` stage by stage (tied call by call to the real function: bytes
consumed, bytes produced, return value, internal buffer sizes).  `Proofs/FrameDS1..4.lean` prove that every execution of the `switch` keeps

    specification (everything consumed so far ++ t)  ≃  K context (staged bytes ++ t)        for every continuation t of the input

where `K` is the parser that remains to be run in that context.  Where a call boundary falls is invisible in this equation; the theorems below
are its consequences for a whole session, i.e. for ANY sequence of calls with ANY amounts of input offered and output room
(`session`: each call is offered a prefix of what has not been consumed yet), started at a frame boundary, without `skipChecksums`:

* `complete_only_if_spec` — a call returns 0 only when the bytes delivered are exactly the specified content of the frame, the consumed input is
  exactly the frame, and the context is back at a frame boundary;
* `error_only_if_invalid` — a call returns an error only when the specification rejects the input;
* `chunking_independent` — two schedules (and two contexts with different histories) cannot reach different verdicts or deliver different bytes;
* `valid_frame_decodes` — a frame accepted by the frame specification of `Spec/FrameL.lean` is never rejected and decodes to the specified content.

The specification side `pDFrame` is `Spec/FrameL.lean`'s `pFrame` (header, block loop, checksums) plus skippable frames, with the declared content
size checked when it is non-zero (all the C tracks and all the property asks).  `every_call_terminates`: the loop of one call always ends.  `staging_buffers_never_overrun`: `header[]` and `tmpIn` are never overrun, incl. a `tmpIn`
kept from an earlier frame.  `every_call_makes_progress`: a call that had input and room and neither fails nor completes consumes or produces at least one byte.
Not covered by these theorems: the physical placement of the 64 KB history (`LZ4F_updateDict`), `skipChecksums`, `LZ4F_getFrameInfo`; the block decoder and the checksum are
parameters (any function for the checksum, any capacity-respecting function for the decoder).
-/
namespace LZ4V.C08
open LZ4V.Spec.FrameL LZ4V.Model.FrameDS
open LZ4V.Spec.Frame (Bad Header isSkippableMagic)

/-- a context at a frame boundary (fresh, after a completed frame, or after `LZ4F_resetDecompressionContext`) with dictionary `d` installed -/
structure Ready (c : Ctx) (d : Bytes) : Prop where
  stage : c.stage = .getFrameHeader
  noskip : c.skipChecksum = false
  rem : c.frameRemaining = 0
  dict : c.dict = d

theorem ready_fresh : Ready ({} : Ctx) [] := ⟨rfl, rfl, rfl, rfl⟩
theorem ready_reset (c : Ctx) : Ready (reset c) [] := ⟨rfl, rfl, rfl, rfl⟩

theorem sessInv_of_ready (E : Env) (c : Ctx) (d input : Bytes) (h : Ready c d) :
    SessInv E (fun f => pDFrame E d f input) c input [] := by
  refine ⟨Inv.start c h.stage h.noskip h.rem, Out_nil c (by rw [h.stage]; rfl), 0, ?_⟩
  intro f
  apply okEq.of_eq
  simp only [K, stg, h.stage, List.nil_append, h.dict, Nat.add_zero]

/-- **no false completion, whatever the chunking** — `LZ4F_decompress` started at a frame boundary and driven by ANY schedule of (bytes offered,
    output capacity), without `skipChecksums`: when a call returns 0, the bytes delivered over all calls are exactly the content the frame
    specification assigns to the input (header accepted by the specification, every block within the declared maximum and decoded against the
    specified history, every block checksum and the content checksum matching, a non-zero declared content size equal to the decoded length),
    the input consumed is exactly the frame, and the context is again at a frame boundary (ready for the next frame). -/
theorem complete_only_if_spec (E : Env) (hE : DecBounded E) (c : Ctx) (d input : Bytes) (hr : Ready c d) (sched : List (Nat × Nat))
    (c' : Ctx) (rest' out' : Bytes) (h : session E c input sched [] = .complete c' rest' out') :
    (∃ F, ∀ f, F ≤ f → pDFrame E d f input = .ok (out', rest')) ∧ Ready c' c'.dict := by
  have hs := session_ok E hE (fun f => pDFrame E d f input) sched c input [] (sessInv_of_ready E c d input hr)
  rw [h] at hs
  dsimp only at hs
  obtain ⟨h1, h2, nb, h3⟩ := hs
  refine ⟨⟨nb, fun f hf => ?_⟩, ?_⟩
  · have := h3 (f - nb)
    rw [Nat.sub_add_cancel hf] at this
    exact this
  · exact ⟨h1, h2.noskip, h2.rem0 (Or.inl h1), rfl⟩

/-- **no false rejection, whatever the chunking**: when a call returns an error, the specification rejects the input (with any amount of block fuel) -/
theorem error_only_if_invalid (E : Env) (hE : DecBounded E) (c : Ctx) (d input : Bytes) (hr : Ready c d) (sched : List (Nat × Nat))
    (code : Nat) (h : session E c input sched [] = .failed code) : ∀ f x, pDFrame E d f input ≠ .ok x := by
  have hs := session_ok E hE (fun f => pDFrame E d f input) sched c input [] (sessInv_of_ready E c d input hr)
  rw [h] at hs
  dsimp only at hs
  obtain ⟨nb, h3⟩ := hs
  intro f x hx
  have := (pDFrame_mono E d f nb).elim input x hx
  exact h3 f x this

/-- **the verdict and the output do not depend on the chunking**: two sessions on the same input from contexts at a frame boundary with the same
    dictionary, driven by ANY two schedules — if both reach a verdict, it is the same verdict; if both complete, they delivered the same bytes
    and stopped at the same place -/
theorem chunking_independent (E : Env) (hE : DecBounded E) (c1 c2 : Ctx) (d input : Bytes) (h1 : Ready c1 d) (h2 : Ready c2 d)
    (s1 s2 : List (Nat × Nat)) :
    (∀ a r o b r' o', session E c1 input s1 [] = .complete a r o → session E c2 input s2 [] = .complete b r' o' → o = o' ∧ r = r') ∧
    (∀ a r o code, session E c1 input s1 [] = .complete a r o → session E c2 input s2 [] ≠ .failed code) := by
  constructor
  · intro a r o b r' o' e1 e2
    obtain ⟨⟨F1, g1⟩, _⟩ := complete_only_if_spec E hE c1 d input h1 s1 a r o e1
    obtain ⟨⟨F2, g2⟩, _⟩ := complete_only_if_spec E hE c2 d input h2 s2 b r' o' e2
    have a1 := g1 (F1 + F2) (by omega)
    have a2 := g2 (F1 + F2) (by omega)
    rw [a1] at a2
    injection a2 with a2
    injection a2 with x y
    exact ⟨x, y⟩
  · intro a r o code e1 e2
    obtain ⟨⟨F1, g1⟩, _⟩ := complete_only_if_spec E hE c1 d input h1 s1 a r o e1
    exact error_only_if_invalid E hE c2 d input h2 s2 code e2 F1 _ (g1 F1 (Nat.le_refl _))

/-! ### `pDFrame` against the frame specification of `Spec/FrameL.lean` -/

theorem pSuffix_bridge (E : Env) (hdr : Header) (content s : Bytes) (x : Bytes × Bytes) :
    (((takeN (if hdr.contentChecksum then 4 else 0)).bind fun crc =>
      if hdr.contentChecksum ∧ E.hash content ≠ le crc then Parser.fail .contentChecksum else
      if hdr.contentSize.isSome ∧ hdr.contentSize ≠ some content.length then Parser.fail .contentSize else
      Parser.pure content) s = .ok x) →
    pSuffixZ E hdr.contentChecksum (hdr.contentSize.getD 0) content s = .ok x := by
  intro h
  unfold Parser.bind at h
  cases ht : takeN (if hdr.contentChecksum = true then 4 else 0) s with
  | error e => rw [ht] at h; cases h
  | ok cr =>
    rw [ht] at h
    dsimp only at h
    by_cases hc : hdr.contentChecksum = true ∧ E.hash content ≠ le cr.1
    · rw [if_pos hc] at h; cases h
    · rw [if_neg hc] at h
      by_cases hsz : hdr.contentSize.isSome = true ∧ hdr.contentSize ≠ some content.length
      · rw [if_pos hsz] at h; cases h
      · rw [if_neg hsz] at h
        have hz : ¬ (hdr.contentSize.getD 0 ≠ 0 ∧ hdr.contentSize.getD 0 ≠ content.length) := by
          intro ⟨z1, z2⟩
          apply hsz
          cases hcs : hdr.contentSize with
          | none => rw [hcs] at z1; simp at z1
          | some v => rw [hcs] at z2; simp at z2; simp [z2]
        have hform : pSuffixZ E hdr.contentChecksum (hdr.contentSize.getD 0) content =
            (takeN (if hdr.contentChecksum then 4 else 0)).bind fun crc =>
              if hdr.contentChecksum ∧ E.hash content ≠ le crc then Parser.fail .contentChecksum else Parser.pure content := by
          unfold pSuffixZ; rw [if_neg hz]
        rw [hform]
        unfold Parser.bind
        rw [ht]
        dsimp only
        rw [if_neg hc]
        exact h

/-- **every frame the specification accepts is accepted by `pDFrame`, with the same content** (so a valid frame is never rejected by the machine) -/
theorem pFrame_le_pDFrame (E : Env) (d : Bytes) (f : Nat) : Le (pFrame E d f) (pDFrame E d f) := by
  unfold pFrame pDFrame
  apply Le.bind
  intro m4
  by_cases hm : le m4 = lz4Magic
  · rw [hm, lz4Magic_not_skippable]
    simp only [ne_eq, not_true_eq_false, if_false, Bool.false_eq_true]
    unfold pFrameBody pFrameBodyZ pBodyRest
    apply Le.bind
    intro hdr
    apply Le.bind
    intro content
    exact Le.mk (fun s res h => pSuffix_bridge E hdr content s res h)
  · rw [if_pos hm]
    exact Le.fail _ _

/-- **a frame the specification accepts is never rejected, and decodes to the specified content, under every chunking** -/
theorem valid_frame_decodes (E : Env) (hE : DecBounded E) (c : Ctx) (d input : Bytes) (hr : Ready c d) (F : Nat) (content rest : Bytes)
    (hv : pFrame E d F input = .ok (content, rest)) (sched : List (Nat × Nat)) :
    (∀ code, session E c input sched [] ≠ .failed code) ∧
    (∀ c' rest' out', session E c input sched [] = .complete c' rest' out' → out' = content ∧ rest' = rest) := by
  have hd := (pFrame_le_pDFrame E d F).elim input _ hv
  constructor
  · intro code h
    exact error_only_if_invalid E hE c d input hr sched code h F _ hd
  · intro c' rest' out' h
    obtain ⟨⟨F', g⟩, _⟩ := complete_only_if_spec E hE c d input hr sched c' rest' out' h
    have a := g (F + F') (by omega)
    have b := (pDFrame_mono E d F F').elim input _ hd
    rw [a] at b
    injection b with b
    injection b with x y
    exact ⟨x, y⟩

/-- **every call terminates**: for ANY context (reachable or not), input, output capacity and `skipChecksums` option, the `while (doAnotherStage)` loop
    of the model ends by itself — each iteration that does not stop consumes input or moves to a stage of lower rank (`Proofs/FrameDS5.lean`) -/
theorem every_call_terminates (E : Env) (c : Ctx) (src : Bytes) (cap : Nat) (skipOpt : Bool) : (decompress E c src cap skipOpt).ret ≠ .stuck :=
  decompress_terminates E c src cap skipOpt

/-- … and a session never gets stuck either -/
theorem session_never_stuck (E : Env) : ∀ (sched : List (Nat × Nat)) (c : Ctx) (rest out : Bytes), session E c rest sched out ≠ .stuck := by
  intro sched
  induction sched with
  | nil => intro c rest out h; cases h
  | cons ac sched ih =>
    intro c rest out
    obtain ⟨avail, cap⟩ := ac
    unfold session
    have ht := decompress_terminates E c (rest.take avail) cap false
    cases hret : (decompress E c (rest.take avail) cap false).ret with
    | hint h =>
      cases h with
      | zero => intro hc; cases hc
      | succ h' => exact ih _ _ _
    | error e => dsimp only; intro hc; cases hc
    | stuck => exact absurd hret ht

/-- **always either makes progress or reaches a verdict**: in any context a session has reached (any schedule so far), a further call that is offered at
    least one byte of the remaining input and at least one byte of room, and returns a non-zero hint (no error, frame not complete), has consumed at
    least one byte or produced at least one byte -/
theorem every_call_makes_progress (E : Env) (hE : DecBounded E) (c : Ctx) (d input : Bytes) (hr : Ready c d) (sched : List (Nat × Nat))
    (c' : Ctx) (rest' out' : Bytes) (hp : session E c input sched [] = .pending c' rest' out')
    (src : Bytes) (cap : Nat) (hs : src ≠ []) (hc : cap > 0) (h : Nat) (hret : (decompress E c' src cap false).ret = .hint h) (h0 : h ≠ 0) :
    (decompress E c' src cap false).consumed > 0 ∨ (decompress E c' src cap false).out ≠ [] := by
  have hs' := session_ok E hE (fun f => pDFrame E d f input) sched c input [] (sessInv_of_ready E c d input hr)
  rw [hp] at hs'
  dsimp only at hs'
  obtain ⟨hi, ho, _⟩ := hs'
  exact decompress_prog E hE c' src cap out' hi ho hs hc h hret h0

/-- **the internal staging buffers are never overrun**: in every context a session (any schedule, any input) reaches from a context at a frame boundary
    whose buffers are in a state `dstage_init` can have left them in (`MemInv`: true of a fresh context and kept by reset), the bytes staged in
    `header[]` are at most `LZ4F_HEADER_SIZE_MAX`, the bytes staged in `tmpIn` and the bound of the loop that copies a compressed block into it are at
    most the size `tmpIn` was allocated with — including when `tmpIn` was allocated for an EARLIER frame with other parameters and kept -/
theorem staging_buffers_never_overrun (E : Env) (hE : DecBounded E) (c : Ctx) (d input : Bytes) (hr : Ready c d) (hm : MemInv c) (sched : List (Nat × Nat)) :
    ∀ c' rest' out', (session E c input sched [] = .pending c' rest' out' ∨ session E c input sched [] = .complete c' rest' out') →
      MemInv c' ∧
      ((c'.stage = .storeFrameHeader ∨ c'.stage = .getBlockChecksum ∨ c'.stage = .storeSFrameSize) → c'.staged.length ≤ LZ4V.Gen.LZ4F_HEADER_SIZE_MAX) ∧
      ((c'.stage = .storeBlockHeader ∨ c'.stage = .storeCBlock ∨ c'.stage = .storeSuffix) → c'.staged.length ≤ c'.tmpInCap) ∧
      (c'.stage = .storeCBlock → c'.tmpInTarget ≤ c'.tmpInCap) := by
  intro c' rest' out' h
  have hs := session_mem E hE (fun f => pDFrame E d f input) sched c input [] (sessInv_of_ready E c d input hr) hm
  have : MemInv c' := by
    rcases h with h | h <;> (rw [h] at hs; exact hs)
  exact ⟨this, this.bounds⟩

example : MemInv ({} : Ctx) := memInv_fresh

/-! non-vacuity: a concrete frame (independent blocks, one stored block `abc`, no checksums) fed one byte at a time with one byte of room -/
def toyEnv : Env := { hash := fun _ => 0, dec := fun _ p cap => if p.length ≤ cap then some p else none }
def toyFrame : Bytes := [0x04, 0x22, 0x4D, 0x18, 0x60, 0x40, 0x00, 0x03, 0x00, 0x00, 0x80, 0x61, 0x62, 0x63, 0x00, 0x00, 0x00, 0x00]

theorem toy_bounded : DecBounded toyEnv := by
  intro h p cap d hd
  unfold toyEnv at hd
  dsimp only at hd
  split at hd
  · injection hd with hd; subst hd; assumption
  · cases hd

def isOk (r : Except Bad (Bytes × Bytes)) (content rest : Bytes) : Bool := match r with | .ok (c, r) => c == content && r == rest | .error _ => false
def isComplete (r : SessionResult) (rest out : Bytes) : Bool := match r with | .complete _ r o => r == rest && o == out | _ => false

example : isOk (pFrame toyEnv [] 5 toyFrame) [0x61, 0x62, 0x63] [] = true := by decide
example : isComplete (session toyEnv {} toyFrame (List.replicate 40 (1, 1)) []) [] [0x61, 0x62, 0x63] = true := by decide
example : isComplete (session toyEnv {} (toyFrame ++ [9, 9]) [(7, 0), (100, 2), (0, 5), (100, 100)] []) [9, 9] [0x61, 0x62, 0x63] = true := by decide

end LZ4V.C08
