import LZ4V.Properties.C03
/-!
# C19 — LZ4F contexts are reusable after any history (compression-context part)
-/
namespace LZ4V.C19
open LZ4V.Model.FrameC

/-- **begin after any history**: `LZ4F_compressBegin` yields the same context whatever state the context was in — an open
    frame, an abandoned one with data buffered, a finished one, any block size / mode left over -/
theorem begin_after_any_history (c1 c2 : Ctx) (bs : Nat) (af : Bool) : step c1 (.begin bs af) = step c2 (.begin bs af) := rfl

/-- so a whole session after `begin` is independent of the history that preceded it -/
theorem session_independent_of_history (c1 c2 : Ctx) (bs : Nat) (af : Bool) (ops : List Op) :
    run c1 (.begin bs af :: ops) = run c2 (.begin bs af :: ops) := by
  simp only [run, begin_after_any_history c1 c2]

/-- exactly one frame per `begin .. end`: after `LZ4F_compressEnd` the context is closed (stage 0) with nothing buffered, and a
    following update without `begin` is refused -/
theorem update_after_end_refused (bs : Nat) (af : Bool) (hbs : 0 < bs) (ops : List Op) (c' : Ctx) (blocks : List (List UInt8))
    (hops : ∀ op ∈ ops, ∀ b a, op ≠ .begin b a) (hr : run (LZ4V.C03.afterBegin bs af) (ops ++ [.finish]) = .ok (c', blocks))
    (src : List UInt8) (u : Bool) : step c' (.update src u) = .error .notInitialized := by
  obtain ⟨_, _, h3⟩ := LZ4V.C03.finished_frame_holds_input bs af hbs ops c' blocks hops hr
  simp only [step]
  rw [if_pos (by rw [h3]; decide)]

/-- non-vacuity: a context abandoned mid-frame with 1 byte buffered, then begin + a complete frame -/
example : (run { stage := 1, blockSize := 4, buffered := [9] } [.begin 2 false, .update [1, 2, 3] false, .finish]).toOption.map (·.2) =
    some [[1, 2], [3]] := by decide

end LZ4V.C19
