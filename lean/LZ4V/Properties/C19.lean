import LZ4V.Spec.Frame
/-! # C19 — property theorems (in progress) -/
namespace LZ4V.C19
end LZ4V.C19
