import LZ4V.Spec.Frame
/-! # C20 — property theorems (in progress) -/
namespace LZ4V.C20
end LZ4V.C20
