import LZ4V.Properties.C03
/-!
# C20 — the lz4file API round-trips content of every length (write path over the frame state machine)

`LZ4F_writeOpen` = `begin`; `LZ4F_write(buf, size)` = one `LZ4F_compressUpdate` per chunk of at most `maxWriteSize` bytes;
`LZ4F_writeClose` = `LZ4F_compressEnd`.  The read path is decided by correspondence (every content length 0..40, block
multiples ± 1, any sequence of read sizes) and by the independent frame parser.
-/
namespace LZ4V.C20
open LZ4V.Model.FrameC

theorem chunks_flatten (maxW : Nat) : ∀ (fuel : Nat) (w : List UInt8), w.length < fuel → (chunks maxW fuel w).flatten = w := by
  intro fuel
  induction fuel with
  | zero => intro w h; omega
  | succ f ih =>
    intro w hf
    unfold chunks
    by_cases hw : w = []
    · rw [if_pos hw, hw]; rfl
    · rw [if_neg hw]
      by_cases hm : 0 < maxW
      · rw [if_pos hm]
        have hlen : 0 < w.length := List.length_pos_iff.mpr hw
        rw [List.flatten_cons, ih (w.drop maxW) (by rw [List.length_drop]; omega), List.take_append_drop]
      · rw [if_neg hm]; simp

theorem fed_updates (l : List (List UInt8)) : fed (l.map (fun ch => Op.update ch false)) = l.flatten := by
  induction l with
  | nil => rfl
  | cons a t ih => simp [fed, ih]

theorem fed_append (a b : List Op) : fed (a ++ b) = fed a ++ fed b := by
  induction a with
  | nil => rfl
  | cons op t ih => cases op <;> simp [fed, ih]

theorem fed_writeOps (maxW : Nat) (writes : List (List UInt8)) : fed (writeOps maxW writes) = writes.flatten := by
  unfold writeOps
  induction writes with
  | nil => rfl
  | cons w t ih =>
    simp only [List.map_cons, List.flatten_cons, fed_append]
    rw [ih, fed_updates, chunks_flatten maxW _ w (by omega)]

/-- **one frame holding exactly the written bytes**, for ANY sequence of write sizes (including none at all and empty
    writes) and any `maxWriteSize`: the blocks emitted between open and close concatenate to the concatenation of the writes -/
theorem file_holds_written_bytes (bs maxW : Nat) (af : Bool) (hbs : 0 < bs) (writes : List (List UInt8)) (c' : Ctx) (blocks : List (List UInt8))
    (hr : run (LZ4V.C03.afterBegin bs af) (writeOps maxW writes ++ [.finish]) = .ok (c', blocks)) :
    blocks.flatten = writes.flatten ∧ c'.stage = 0 := by
  have hops : ∀ op ∈ writeOps maxW writes, ∀ b a, op ≠ .begin b a := by
    intro op hop b a h
    unfold writeOps at hop
    simp only [List.mem_flatten, List.mem_map] at hop
    obtain ⟨l, ⟨w, _, hl⟩, hin⟩ := hop
    rw [← hl, List.mem_map] at hin
    obtain ⟨ch, _, hch⟩ := hin
    rw [← hch] at h
    cases h
  obtain ⟨h1, _, h3⟩ := LZ4V.C03.finished_frame_holds_input bs af hbs (writeOps maxW writes) c' blocks hops hr
  exact ⟨by rw [h1, fed_writeOps], h3⟩

/-- non-vacuity: no write at all still yields a closed (empty) frame -/
example : (run (LZ4V.C03.afterBegin 65536 false) (writeOps 65536 [] ++ [.finish])).toOption.map (fun r => (r.1.stage, r.2)) = some (0, []) := by decide

end LZ4V.C20
