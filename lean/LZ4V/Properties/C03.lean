import LZ4V.Proofs.FrameCProof
import LZ4V.Proofs.BlockHub
/-!
# C03 — frame compression is lossless under any call pattern (buffering state machine + specification)

`Model.FrameC` mirrors which input bytes `LZ4F_compressUpdate / LZ4F_uncompressedUpdate / LZ4F_flush / LZ4F_compressEnd`
put into which block (tie: the real frame's block structure is compared with the model's on every recorded call history).
-/
namespace LZ4V.C03
open LZ4V.Model.FrameC

/-- the context right after `LZ4F_compressBegin` -/
def afterBegin (bs : Nat) (af : Bool) : Ctx := { stage := 1, blockSize := bs, autoFlush := af }

theorem afterBegin_wf (bs : Nat) (af : Bool) (h : 0 < bs) : WF (afterBegin bs af) := ⟨h, h⟩

/-- **blocks cover the input**: for EVERY call history after `begin` (any split of the input over updates of either kind,
    flushes anywhere, chunk sizes 0 .. several blocks), the raw contents of the emitted blocks, in order, followed by what is
    still buffered are exactly the bytes fed so far; every block is non-empty and at most `blockSize` long -/
theorem blocks_cover_input (bs : Nat) (af : Bool) (hbs : 0 < bs) (ops : List Op) (c' : Ctx) (blocks : List (List UInt8))
    (hops : ∀ op ∈ ops, ∀ b a, op ≠ .begin b a) (hr : run (afterBegin bs af) ops = .ok (c', blocks)) :
    blocks.flatten ++ c'.buffered = fed ops ∧ (∀ b ∈ blocks, 0 < b.length ∧ b.length ≤ bs) := by
  obtain ⟨h1, h2, _⟩ := run_cover ops (afterBegin bs af) c' blocks (afterBegin_wf bs af hbs) hops hr
  exact ⟨by simpa [afterBegin] using h1, h2⟩

/-- a history that ends with `LZ4F_compressEnd`, from any well-formed context -/
theorem finish_cover : ∀ (ops : List Op) (c c' : Ctx) (blocks : List (List UInt8)), WF c →
    (∀ op ∈ ops, ∀ b a, op ≠ .begin b a) → run c (ops ++ [.finish]) = .ok (c', blocks) →
    blocks.flatten = c.buffered ++ fed ops ∧ c'.buffered = [] ∧ c'.stage = 0 := by
  intro ops
  induction ops with
  | nil =>
    intro c c' blocks hwf _ hr
    simp only [List.nil_append, run] at hr
    cases hs : step c .finish with
    | error e => rw [hs] at hr; cases hr
    | ok rf =>
      obtain ⟨cf, ef⟩ := rf
      rw [hs] at hr
      dsimp only at hr
      injection hr with hr; injection hr with e1 e2; subst e1; subst e2
      obtain ⟨s1, _, _, _, s5⟩ := step_spec c cf .finish ef hwf (by intro b a h; cases h) hs
      have hclosed : ef.closed = true ∧ cf.stage = 0 := by
        simp only [step] at hs
        split at hs
        · split at hs
          · injection hs with hs; injection hs with a1 a2; subst a1; subst a2; exact ⟨rfl, rfl⟩
          · cases hs
        · injection hs with hs; injection hs with a1 a2; subst a1; subst a2; exact ⟨rfl, rfl⟩
      have hb := s5 hclosed.1
      rw [hb] at s1
      simp only [List.append_nil, fed] at s1 ⊢
      exact ⟨s1, hb, hclosed.2⟩
  | cons op rest ih =>
    intro c c' blocks hwf hops hr
    simp only [List.cons_append, run] at hr
    cases hs : step c op with
    | error e => rw [hs] at hr; cases hr
    | ok r =>
      obtain ⟨c1, e⟩ := r
      rw [hs] at hr
      dsimp only at hr
      cases hr2 : run c1 (rest ++ [.finish]) with
      | error e2 => rw [hr2] at hr; cases hr
      | ok r2 =>
        obtain ⟨c2, bs2⟩ := r2
        rw [hr2] at hr
        dsimp only at hr
        injection hr with hr; injection hr with e1 e2; subst e1; subst e2
        obtain ⟨s1, _, s3, _, _⟩ := step_spec c c1 op e hwf (hops op List.mem_cons_self) hs
        obtain ⟨i1, i2, i3⟩ := ih c1 c2 bs2 s3 (fun o ho => hops o (List.mem_cons_of_mem _ ho)) hr2
        refine ⟨?_, i2, i3⟩
        have hf : fed (op :: rest) = fed [op] ++ fed rest := by cases op <;> simp [fed]
        rw [List.flatten_append, i1, ← List.append_assoc, s1, hf, List.append_assoc]

/-- **a finished frame holds exactly the input**: any history `begin; ...; LZ4F_compressEnd` emits blocks whose contents
    concatenate to everything that was fed; nothing stays buffered and the frame is closed -/
theorem finished_frame_holds_input (bs : Nat) (af : Bool) (hbs : 0 < bs) (ops : List Op) (c' : Ctx) (blocks : List (List UInt8))
    (hops : ∀ op ∈ ops, ∀ b a, op ≠ .begin b a) (hr : run (afterBegin bs af) (ops ++ [.finish]) = .ok (c', blocks)) :
    blocks.flatten = fed ops ∧ c'.buffered = [] ∧ c'.stage = 0 := by
  obtain ⟨h1, h2, h3⟩ := finish_cover ops (afterBegin bs af) c' blocks (afterBegin_wf bs af hbs) hops hr
  exact ⟨by simpa [afterBegin] using h1, h2, h3⟩

/-- non-vacuity: 5 bytes, block size 2, update 3 bytes, flush, uncompressed-update 2 bytes, end -/
example : (run (afterBegin 2 false) [.update [1, 2, 3] false, .flush, .update [4, 5] true, .finish]).toOption.map (·.2) =
    some [[1, 2], [3], [4, 5]] := by decide

end LZ4V.C03
