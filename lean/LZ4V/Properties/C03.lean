import LZ4V.Spec.Frame
/-! # C03 — property theorems (in progress) -/
namespace LZ4V.C03
end LZ4V.C03
