import LZ4V.Model.FrameD
/-!
# Model of `LZ4F_decompress` (lib/lz4frame.c): the resumable `dStage` machine

One Lean function per `case dstage_*:` label of the C `switch`; the fall-throughs of the C (`getFrameHeader → storeFrameHeader`,
`init → getBlockHeader → storeBlockHeader → "decode block header"`, `getCBlock/storeCBlock → "decode" → flushOut`,
`getSuffix → storeSuffix → "check suffix"`, `getSFrameSize → storeSFrameSize → "decode size"`) are calls between these functions, the
C's `selectedIn` pointer is the `sel` argument.  `Call` holds the loop variables of one call (`srcPtr`, `dstPtr`, the bytes written so far),
`step` is one execution of the `switch`, `loop` the `while (doAnotherStage)`.

What is kept exactly: the fifteen stages, every staging decision (`tmpInSize`, `tmpInTarget`, what is copied into `dctx->header` /
`dctx->tmpIn`), `tmpOutSize/tmpOutStart`, `frameRemainingSize`, the `skipChecksum` latch, both XXH32 states (as the bytes fed to them),
`LZ4F_decodeHeader` (`Model/FrameD.lean` for the LZ4-frame path, the skippable path here), `LZ4F_resetDecompressionContext`, the buffer
allocation decision of `dstage_init` (`maxBufferSize`, the size of the `tmpIn` allocation), every return value (`nextSrcSizeHint`, error
codes), and that an error returns with `*srcSizePtr = *dstSizePtr = 0`.

What is abstracted: WHERE the 64 KB history of a linked-blocks frame lives (`dctx->dict`, `LZ4F_updateDict`, the epilogue that saves it into
`tmpOutBuffer`): the model keeps the decoded content of the frame as a value and hands its last 64 KB (after the dictionary) to the block
decoder.  The block decoder and the checksum function are parameters (`Env`), as in `Spec/FrameL.lean`; `frameRemainingSize` is an
unbounded integer (the C's `U64` wraps only beyond 2^64 decoded bytes).
-/
namespace LZ4V.Model.FrameDS
open LZ4V.Spec.FrameL
open LZ4V.Spec.Frame (Header isSkippableMagic)
open LZ4V.Gen (BHSize BFSize minFHSize maxFHSize)

inductive Stage
  | getFrameHeader | storeFrameHeader | init | getBlockHeader | storeBlockHeader | copyDirect | getBlockChecksum
  | getCBlock | storeCBlock | flushOut | getSuffix | storeSuffix | getSFrameSize | storeSFrameSize | skipSkippable
deriving Repr, DecidableEq

/-- the C's `dStage_t` value -/
def Stage.toNat : Stage → Nat
  | .getFrameHeader => 0 | .storeFrameHeader => 1 | .init => 2 | .getBlockHeader => 3 | .storeBlockHeader => 4 | .copyDirect => 5
  | .getBlockChecksum => 6 | .getCBlock => 7 | .storeCBlock => 8 | .flushOut => 9 | .getSuffix => 10 | .storeSuffix => 11
  | .getSFrameSize => 12 | .storeSFrameSize => 13 | .skipSkippable => 14

structure Ctx where
  stage           : Stage := .getFrameHeader
  linked          : Bool := true          -- frameInfo.blockMode == LZ4F_blockLinked (the enum's zero value)
  blockChecksum   : Bool := false         -- frameInfo.blockChecksumFlag
  contentChecksum : Bool := false         -- frameInfo.contentChecksumFlag
  contentSize     : Nat := 0              -- frameInfo.contentSize
  bsid            : Nat := 0              -- frameInfo.blockSizeID
  dictID          : Nat := 0              -- frameInfo.dictID
  skippable       : Bool := false         -- frameInfo.frameType == LZ4F_skippableFrame
  frameRemaining  : Int := 0              -- frameRemainingSize
  maxBlockSize    : Nat := 0
  maxBufferSize   : Nat := 0
  tmpInCap        : Nat := 0              -- size of the allocation behind `tmpIn`
  staged          : Bytes := []           -- the first `tmpInSize` bytes of `header[]` or `tmpIn[]`, whichever the stage uses
  tmpInTarget     : Nat := 0
  tmpOut          : Bytes := []           -- `tmpOut[0 .. tmpOutSize)`
  tmpOutStart     : Nat := 0
  content         : Bytes := []           -- everything decoded in the current frame (what `dict/dictSize` give access to, logically)
  hashed          : Bytes := []           -- bytes fed to `dctx->xxh` since its last reset
  blockHashed     : Bytes := []           -- bytes fed to `dctx->blockChecksum` since its last reset
  skipChecksum    : Bool := false
  dict            : Bytes := []           -- the dictionary given to `LZ4F_decompress_usingDict`
deriving Repr

/-- `LZ4F_resetDecompressionContext` -/
def reset (c : Ctx) : Ctx := { c with stage := .getFrameHeader, dict := [], skipChecksum := false, frameRemaining := 0 }

def hErrCode : FrameD.HErr → Nat
  | .frameHeader_incomplete => LZ4V.Gen.LZ4F_ERROR_frameHeader_incomplete
  | .frameType_unknown => LZ4V.Gen.LZ4F_ERROR_frameType_unknown
  | .reservedFlag_set => LZ4V.Gen.LZ4F_ERROR_reservedFlag_set
  | .headerVersion_wrong => LZ4V.Gen.LZ4F_ERROR_headerVersion_wrong
  | .maxBlockSize_invalid => LZ4V.Gen.LZ4F_ERROR_maxBlockSize_invalid
  | .headerChecksum_invalid => LZ4V.Gen.LZ4F_ERROR_headerChecksum_invalid

/-- `MEM_INIT(&(dctx->frameInfo), 0, sizeof(dctx->frameInfo))` -/
def clearFrameInfo (c : Ctx) : Ctx := { c with linked := true, blockChecksum := false, contentChecksum := false, contentSize := 0, bsid := 0, dictID := 0, skippable := false }

/-- `LZ4F_decodeHeader(dctx, src, srcSize)`; `fromHeader` = the C's `src == dctx->header`.  Returns the context and the number of bytes read. -/
def decodeHeader (E : Env) (c : Ctx) (src : Bytes) (fromHeader : Bool) : Except Nat (Ctx × Nat) :=
  if src.length < minFHSize then .error LZ4V.Gen.LZ4F_ERROR_frameHeader_incomplete else
  let c := clearFrameInfo c
  if isSkippableMagic (le (src.take 4)) then
    if fromHeader then .ok ({ c with skippable := true, staged := src, tmpInTarget := 8, stage := .storeSFrameSize }, src.length)
    else .ok ({ c with skippable := true, stage := .getSFrameSize }, 4)
  else
    match FrameD.decodeHeader E.hash src with
    | .error e => .error (hErrCode e)
    | .ok (.needMore target) => .ok ({ c with staged := src, tmpInTarget := target, stage := .storeFrameHeader }, src.length)
    | .ok (.done hdr size) =>
      .ok ({ c with linked := !hdr.blockIndep, blockChecksum := hdr.blockChecksum, contentChecksum := hdr.contentChecksum,
                    maxBlockSize := hdr.maxBlock,
                    contentSize := hdr.contentSize.getD 0, bsid := hdr.bsid, dictID := hdr.dictId.getD 0,
                    frameRemaining := (match hdr.contentSize with | some v => (v : Int) | none => c.frameRemaining),
                    stage := .init }, size)

/-- the loop variables of one call of `LZ4F_decompress` -/
structure Call where
  c    : Ctx
  src  : Bytes        -- `[srcPtr, srcEnd)`
  room : Nat          -- `dstEnd - dstPtr`
  out  : Bytes        -- `[dstStart, dstPtr)`

inductive Step
  | next (k : Call)                    -- `break` with `doAnotherStage` still set
  | stop (k : Call) (hint : Nat)       -- `doAnotherStage = 0`
  | fail (c : Ctx) (code : Nat)        -- `RETURN_ERROR`

/-- what a block may reference: the last 64 KB of dictionary ++ (for linked blocks) the frame's content so far -/
def history (c : Ctx) : Bytes := if c.linked then window c.dict c.content else window c.dict []

def sStoreFrameHeader (E : Env) (k : Call) : Step :=
  let n := min (k.c.tmpInTarget - k.c.staged.length) k.src.length
  let c : Ctx := { k.c with staged := k.c.staged ++ k.src.take n }
  let k : Call := { k with c := c, src := k.src.drop n }
  if c.staged.length < c.tmpInTarget then .stop k ((c.tmpInTarget - c.staged.length) + BHSize)
  else
    match decodeHeader E c c.staged true with
    | .error e => .fail c e
    | .ok (c', _) => .next { k with c := c' }

def sGetFrameHeader (E : Env) (k : Call) : Step :=
  if k.src.length ≥ maxFHSize then
    match decodeHeader E k.c k.src false with
    | .error e => .fail k.c e
    | .ok (c', h) => .next { k with c := c', src := k.src.drop h }
  else
    let c : Ctx := { k.c with staged := [] }
    if k.src.length = 0 then .stop { k with c := c } minFHSize
    else sStoreFrameHeader E { k with c := { c with tmpInTarget := minFHSize, stage := .storeFrameHeader } }

/-- "decode block header" -/
def decodeBlockHeader (k : Call) (sel : Bytes) : Step :=
  let blockHeader := le (sel.take 4)
  let nextCBlockSize := blockHeader % 0x80000000
  let crcSize := if k.c.blockChecksum then BFSize else 0
  if blockHeader = 0 then .next { k with c := { k.c with stage := .getSuffix } }
  else if nextCBlockSize > k.c.maxBlockSize then .fail k.c LZ4V.Gen.LZ4F_ERROR_maxBlockSize_invalid
  else if blockHeader ≥ 0x80000000 then
    .next { k with c := { k.c with tmpInTarget := nextCBlockSize, blockHashed := (if k.c.blockChecksum then [] else k.c.blockHashed), stage := .copyDirect } }
  else
    let k' := { k with c := { k.c with tmpInTarget := nextCBlockSize + crcSize, stage := .getCBlock } }
    if k.room = 0 ∨ k.src.length = 0 then .stop k' (BHSize + nextCBlockSize + crcSize) else .next k'

def sStoreBlockHeader (k : Call) : Step :=
  let n := min (BHSize - k.c.staged.length) k.src.length
  let c : Ctx := { k.c with staged := k.c.staged ++ k.src.take n }
  let k : Call := { k with c := c, src := k.src.drop n }
  if c.staged.length < BHSize then .stop k (BHSize - c.staged.length)
  else decodeBlockHeader k c.staged

def sGetBlockHeader (k : Call) : Step :=
  if k.src.length ≥ BHSize then decodeBlockHeader { k with src := k.src.drop BHSize } (k.src.take BHSize)
  else sStoreBlockHeader { k with c := { k.c with staged := [], stage := .storeBlockHeader } }

def sInit (k : Call) : Step :=
  let c := k.c
  let c := if c.contentChecksum then { c with hashed := [] } else c
  let bufferNeeded := c.maxBlockSize + (if c.linked then 131072 else 0)
  let c := if bufferNeeded > c.maxBufferSize then { c with tmpInCap := c.maxBlockSize + BFSize, maxBufferSize := bufferNeeded } else c
  sGetBlockHeader { k with c := { c with staged := [], tmpInTarget := 0, tmpOut := [], tmpOutStart := 0, content := [], stage := .getBlockHeader } }

def sCopyDirect (k : Call) : Step :=
  let c := k.c
  let n := min c.tmpInTarget (min k.src.length k.room)
  let data := k.src.take n
  let c' := { c with blockHashed := (if !c.skipChecksum && c.blockChecksum then c.blockHashed ++ data else c.blockHashed),
                     hashed := (if !c.skipChecksum && c.contentChecksum then c.hashed ++ data else c.hashed),
                     frameRemaining := (if c.contentSize ≠ 0 then c.frameRemaining - n else c.frameRemaining),
                     content := c.content ++ data }
  let k' := { k with src := k.src.drop n, room := k.room - n, out := k.out ++ data }
  if n = c.tmpInTarget then
    if c.blockChecksum then .next { k' with c := { c' with staged := [], stage := .getBlockChecksum } }
    else .next { k' with c := { c' with stage := .getBlockHeader } }
  else
    .stop { k' with c := { c' with tmpInTarget := c.tmpInTarget - n } } ((c.tmpInTarget - n) + (if c.blockChecksum then BFSize else 0) + BHSize)

def checkBlockCrc (E : Env) (k : Call) (sel : Bytes) : Step :=
  if !k.c.skipChecksum ∧ le (sel.take 4) ≠ E.hash k.c.blockHashed then .fail k.c LZ4V.Gen.LZ4F_ERROR_blockChecksum_invalid
  else .next { k with c := { k.c with stage := .getBlockHeader } }

def sGetBlockChecksum (E : Env) (k : Call) : Step :=
  if k.src.length ≥ 4 ∧ k.c.staged.length = 0 then checkBlockCrc E { k with src := k.src.drop 4 } (k.src.take 4)
  else
    let n := min (4 - k.c.staged.length) k.src.length
    let c : Ctx := { k.c with staged := k.c.staged ++ k.src.take n }
    let k : Call := { k with c := c, src := k.src.drop n }
    if c.staged.length < 4 then .stop k 1          -- `nextSrcSizeHint` keeps its initial value
    else checkBlockCrc E k c.staged

def sFlushOut (k : Call) : Step :=
  let c := k.c
  let n := min (c.tmpOut.length - c.tmpOutStart) k.room
  let k' := { k with c := { c with tmpOutStart := c.tmpOutStart + n }, room := k.room - n, out := k.out ++ (c.tmpOut.drop c.tmpOutStart).take n }
  if c.tmpOutStart + n = c.tmpOut.length then .next { k' with c := { k'.c with stage := .getBlockHeader } }
  else .stop k' BHSize

/-- "At this stage, input is large enough to decode a block": `sel` holds `tmpInTarget` bytes -/
def decodeCBlock (E : Env) (k : Call) (sel : Bytes) : Step :=
  let c := k.c
  if c.blockChecksum ∧ le ((sel.drop (c.tmpInTarget - 4)).take 4) ≠ E.hash (sel.take (c.tmpInTarget - 4)) then .fail c LZ4V.Gen.LZ4F_ERROR_blockChecksum_invalid
  else
    let c := if c.blockChecksum then { c with tmpInTarget := c.tmpInTarget - 4 } else c
    match E.dec (history c) (sel.take c.tmpInTarget) c.maxBlockSize with
    | none => .fail c LZ4V.Gen.LZ4F_ERROR_decompressionFailed
    | some d =>
      let c' := { c with hashed := (if c.contentChecksum && !c.skipChecksum then c.hashed ++ d else c.hashed),
                         frameRemaining := (if c.contentSize ≠ 0 then c.frameRemaining - d.length else c.frameRemaining),
                         content := c.content ++ d }
      if k.room ≥ c.maxBlockSize then
        .next { k with c := { c' with stage := .getBlockHeader }, room := k.room - d.length, out := k.out ++ d }
      else
        sFlushOut { k with c := { c' with tmpOut := d, tmpOutStart := 0, stage := .flushOut } }

def sStoreCBlock (E : Env) (k : Call) : Step :=
  let n := min (k.c.tmpInTarget - k.c.staged.length) k.src.length
  let c : Ctx := { k.c with staged := k.c.staged ++ k.src.take n }
  let k : Call := { k with c := c, src := k.src.drop n }
  if c.staged.length < c.tmpInTarget then .stop k ((c.tmpInTarget - c.staged.length) + (if c.blockChecksum then BFSize else 0) + BHSize)
  else decodeCBlock E k c.staged

def sGetCBlock (E : Env) (k : Call) : Step :=
  if k.src.length < k.c.tmpInTarget then .next { k with c := { k.c with staged := [], stage := .storeCBlock } }
  else decodeCBlock E { k with src := k.src.drop k.c.tmpInTarget } (k.src.take k.c.tmpInTarget)

/-- "check suffix" -/
def checkSuffix (E : Env) (k : Call) (sel : Bytes) : Step :=
  if !k.c.skipChecksum ∧ le (sel.take 4) ≠ E.hash k.c.hashed then .fail k.c LZ4V.Gen.LZ4F_ERROR_contentChecksum_invalid
  else .stop { k with c := reset k.c } 0

def sStoreSuffix (E : Env) (k : Call) : Step :=
  let n := min (4 - k.c.staged.length) k.src.length
  let c : Ctx := { k.c with staged := k.c.staged ++ k.src.take n }
  let k : Call := { k with c := c, src := k.src.drop n }
  if c.staged.length < 4 then .stop k (4 - c.staged.length)
  else checkSuffix E k c.staged

def sGetSuffix (E : Env) (k : Call) : Step :=
  if k.c.frameRemaining ≠ 0 then .fail k.c LZ4V.Gen.LZ4F_ERROR_frameSize_wrong
  else if !k.c.contentChecksum then .stop { k with c := reset k.c } 0
  else if k.src.length < 4 then sStoreSuffix E { k with c := { k.c with staged := [], stage := .storeSuffix } }
  else checkSuffix E { k with src := k.src.drop 4 } (k.src.take 4)

/-- "decode skippable frame size" -/
def decodeSFrameSize (k : Call) (sel : Bytes) : Step :=
  .next { k with c := { k.c with contentSize := le (sel.take 4), tmpInTarget := le (sel.take 4), stage := .skipSkippable } }

def sStoreSFrameSize (k : Call) : Step :=
  let n := min (k.c.tmpInTarget - k.c.staged.length) k.src.length
  let c : Ctx := { k.c with staged := k.c.staged ++ k.src.take n }
  let k : Call := { k with c := c, src := k.src.drop n }
  if c.staged.length < c.tmpInTarget then .stop k (c.tmpInTarget - c.staged.length)
  else decodeSFrameSize k (c.staged.drop 4)

def sGetSFrameSize (k : Call) : Step :=
  if k.src.length ≥ 4 then decodeSFrameSize { k with src := k.src.drop 4 } (k.src.take 4)
  else sStoreSFrameSize { k with c := { k.c with staged := List.replicate 4 0, tmpInTarget := 8, stage := .storeSFrameSize } }

def sSkipSkippable (k : Call) : Step :=
  let n := min k.c.tmpInTarget k.src.length
  let c : Ctx := { k.c with tmpInTarget := k.c.tmpInTarget - n }
  let k : Call := { k with c := c, src := k.src.drop n }
  if c.tmpInTarget ≠ 0 then .stop k c.tmpInTarget else .stop { k with c := reset c } 0

/-- one execution of the `switch (dctx->dStage)` -/
def step (E : Env) (k : Call) : Step :=
  match k.c.stage with
  | .getFrameHeader => sGetFrameHeader E k
  | .storeFrameHeader => sStoreFrameHeader E k
  | .init => sInit k
  | .getBlockHeader => sGetBlockHeader k
  | .storeBlockHeader => sStoreBlockHeader k
  | .copyDirect => sCopyDirect k
  | .getBlockChecksum => sGetBlockChecksum E k
  | .getCBlock => sGetCBlock E k
  | .storeCBlock => sStoreCBlock E k
  | .flushOut => sFlushOut k
  | .getSuffix => sGetSuffix E k
  | .storeSuffix => sStoreSuffix E k
  | .getSFrameSize => sGetSFrameSize k
  | .storeSFrameSize => sStoreSFrameSize k
  | .skipSkippable => sSkipSkippable k

inductive Ret
  | hint (n : Nat)        -- 0 = a frame (or skippable frame) was completed by this call
  | error (code : Nat)
  | stuck                 -- the model's fuel ran out (proved impossible: `Proofs/FrameDSProof.lean`)
deriving Repr, DecidableEq

/-- what one call of `LZ4F_decompress` reports -/
structure Result where
  c        : Ctx
  consumed : Nat        -- `*srcSizePtr`
  out      : Bytes      -- `dst[0 .. *dstSizePtr)`
  ret      : Ret

/-- `while (doAnotherStage)` -/
def loop (E : Env) : Nat → Call → Call × Ret
  | 0, k => (k, .stuck)
  | f+1, k =>
    match step E k with
    | .next k' => loop E f k'
    | .stop k' h => (k', .hint h)
    | .fail c e => ({ k with c := c }, .error e)

/-- iterations one call can need (`Proofs/FrameDS5.lean`: every iteration that does not stop either consumes input or moves to a stage of lower rank) -/
def fuelFor (src : Bytes) : Nat := 32 * src.length + 33

/-- `LZ4F_decompress(dctx, dst, &cap, src, &srcSize, options)` -/
def decompress (E : Env) (c : Ctx) (src : Bytes) (cap : Nat) (skipOpt : Bool) : Result :=
  let c := { c with skipChecksum := c.skipChecksum || skipOpt }
  match loop E (fuelFor src) { c := c, src := src, room := cap, out := [] } with
  | (k, .hint h) => { c := k.c, consumed := src.length - k.src.length, out := k.out, ret := .hint h }
  | (k, r) => { c := k.c, consumed := 0, out := [], ret := r }       -- `RETURN_ERROR`: the size outputs keep the 0 written on entry

/-- `LZ4F_decompress_usingDict` -/
def decompressUsingDict (E : Env) (c : Ctx) (src : Bytes) (cap : Nat) (dict : Bytes) (skipOpt : Bool) : Result :=
  decompress E (if c.stage.toNat ≤ Stage.init.toNat then { c with dict := dict } else c) src cap skipOpt

/-- `LZ4F_headerSize` -/
def headerSize (src : Bytes) : Except Nat Nat :=
  if src.length < LZ4V.Gen.LZ4F_MIN_SIZE_TO_KNOW_HEADER_LENGTH then .error LZ4V.Gen.LZ4F_ERROR_frameHeader_incomplete
  else if isSkippableMagic (le (src.take 4)) then .ok 8
  else if le (src.take 4) ≠ LZ4V.Gen.LZ4F_MAGICNUMBER then .error LZ4V.Gen.LZ4F_ERROR_frameType_unknown
  else
    let FLG := FrameD.byteAt src 4
    .ok (minFHSize + (if (FLG >>> 3) &&& 1 ≠ 0 then 8 else 0) + (if FLG &&& 1 ≠ 0 then 4 else 0))

/-- `LZ4F_frameInfo_t` as reported by `LZ4F_getFrameInfo` -/
structure FrameInfo where
  blockSizeID : Nat
  linked : Bool
  contentChecksum : Bool
  skippable : Bool
  contentSize : Nat
  dictID : Nat
  blockChecksum : Bool
deriving Repr, DecidableEq

def infoOf (c : Ctx) : FrameInfo :=
  { blockSizeID := c.bsid, linked := c.linked, contentChecksum := c.contentChecksum, skippable := c.skippable, contentSize := c.contentSize,
    dictID := c.dictID, blockChecksum := c.blockChecksum }

/-- what `LZ4F_getFrameInfo` reports: context, `*srcSizePtr`, `*frameInfoPtr` (when written), return value -/
structure InfoResult where
  c        : Ctx
  consumed : Nat
  info     : Option FrameInfo
  ret      : Ret

/-- `LZ4F_getFrameInfo(dctx, &info, src, &srcSize)` -/
def getFrameInfo (E : Env) (c : Ctx) (src : Bytes) : InfoResult :=
  if c.stage.toNat > Stage.storeFrameHeader.toNat then
    -- frameInfo already decoded: `LZ4F_decompress(dctx, NULL, &o, NULL, &i, NULL)` with o = i = 0 gives the hint
    let r := decompress E c [] 0 false
    { c := r.c, consumed := 0, info := some (infoOf c), ret := r.ret }
  else if c.stage.toNat = Stage.storeFrameHeader.toNat then
    { c := c, consumed := 0, info := none, ret := .error LZ4V.Gen.LZ4F_ERROR_frameDecoding_alreadyStarted }
  else
    match headerSize src with
    | .error e => { c := c, consumed := 0, info := none, ret := .error e }
    | .ok hSize =>
      if src.length < hSize then { c := c, consumed := 0, info := none, ret := .error LZ4V.Gen.LZ4F_ERROR_frameHeader_incomplete }
      else
        match decodeHeader E c (src.take hSize) false with
        | .error e => { c := c, consumed := 0, info := none, ret := .error e }
        | .ok (c', n) => { c := c', consumed := n, info := some (infoOf c'), ret := .hint BHSize }

end LZ4V.Model.FrameDS
