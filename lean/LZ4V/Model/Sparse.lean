/-!
# Model of the sparse-file writer of the CLI (programs/lz4io.c: `LZ4IO_fwriteSparse`, `LZ4IO_fwriteSparseEnd`)

The output file is modelled by its content so far and a pending hole (the distance `fseek(SEEK_CUR)` moved past the end of
the data): a later write materialises the hole as zero bytes, a hole that is never followed by a write is lost at close
(this is why `LZ4IO_fwriteSparseEnd` writes one last zero byte).  `storedSkips` is an `unsigned`: its additions are
modelled modulo 2^32.  `sizeof(size_t)` = 8 (64-bit build).
-/
namespace LZ4V.Model.Sparse

structure SFile where
  content : List UInt8 := []
  hole    : Nat := 0
deriving Repr

def zeros (n : Nat) : List UInt8 := List.replicate n 0

def SFile.seek (f : SFile) (n : Nat) : SFile := { f with hole := f.hole + n }
/-- `fwrite` of `b` at the current position; writing nothing does not extend the file -/
def SFile.write (f : SFile) (b : List UInt8) : SFile :=
  if b = [] then f else { content := f.content ++ zeros f.hole ++ b, hole := 0 }

def GB : Nat := 1073741824
def segWords : Nat := 4096        -- (32 KB) / sizeof(size_t)

/-- `for (nb0T=0; (nb0T < seg0SizeT) && (ptrT[nb0T] == 0); nb0T++)` : leading all-zero 8-byte words, at most `n` -/
def lzw : Nat → List UInt8 → Nat
  | 0, _ => 0
  | n+1, p => if (p.take 8).all (· == 0) then 1 + lzw n (p.drop 8) else 0

/-- leading zero bytes -/
def lzb : List UInt8 → Nat
  | [] => 0
  | x :: t => if x == 0 then 1 + lzb t else 0

/-- the `while (ptrT < bufferTEnd)` loop; `p` = bytes from `ptrT` to `bufferTEnd`, `remT` = `bufferSizeT` -/
def segLoop : Nat → List UInt8 → Nat → Nat → SFile → Nat × SFile
  | 0, _, _, skips, f => (skips, f)
  | fuel+1, p, remT, skips, f =>
    if remT = 0 then (skips, f) else
    let seg := min segWords remT
    let nb0 := lzw seg p
    let skips1 := (skips + nb0 * 8) % 4294967296
    if nb0 ≠ seg then
      segLoop fuel (p.drop (seg * 8)) (remT - seg) 0 ((f.seek skips1).write ((p.drop (nb0 * 8)).take ((seg - nb0) * 8)))
    else segLoop fuel (p.drop (seg * 8)) (remT - seg) skips1 f

/-- `LZ4IO_fwriteSparse` in sparse mode; state = (`storedSkips`, file) -/
def fwriteSparse (st : Nat × SFile) (buf : List UInt8) : Nat × SFile :=
  let st1 : Nat × SFile := if st.1 > GB then (st.1 - GB, st.2.seek GB) else st
  let nT := buf.length / 8
  let st2 := segLoop (nT + 1) (buf.take (8 * nT)) nT st1.1 st1.2
  let rest := buf.drop (8 * nT)
  if rest ≠ [] then
    let z := lzb rest
    let skips := (st2.1 + z) % 4294967296
    if z ≠ rest.length then (0, (st2.2.seek skips).write (rest.drop z)) else (skips, st2.2)
  else st2

/-- `LZ4IO_fwriteSparseEnd` -/
def sparseEnd (st : Nat × SFile) : SFile :=
  if st.1 > 0 then (st.2.seek (st.1 - 1)).write [0] else st.2

/-- a whole decoding session in sparse mode -/
def sparseSession (bufs : List (List UInt8)) : SFile := sparseEnd (bufs.foldl fwriteSparse (0, {}))

/-- the same session with plain `fwrite`s -/
def plainSession (bufs : List (List UInt8)) : SFile := bufs.foldl (fun f b => f.write b) {}

end LZ4V.Model.Sparse
