import LZ4V.Model.Fast
/-!
# Model of `LZ4_compress_fast_extState_fastReset` on a state that is REUSED across calls (lib/lz4.c)

The state survives between calls: hash table, `currentOffset`, `tableType`.  `LZ4_prepareTable` decides whether the table can be
kept (same table type, small input, indexes that still fit) or must be cleared; when it is kept, `LZ4_compress_generic_validated`
runs with `startIndex = currentOffset ≠ 0` and `dictIssue = dictSmall`: every candidate taken from the table is an INDEX that
may date from an earlier, unrelated input, and is rejected when it lies below `startIndex` (`prefixIdxLimit`).
`searchR`/`emitMatchR`/`stepR` are `search`/`emitMatch`/`step` of `Model/Fast.lean` with indexes instead of positions
(`index = startIndex + position`), the `dictSmall` test, and the 16-bit store of `byU16` tables.
-/
namespace LZ4V.Model.FastR
open LZ4V.Model.Fast
open LZ4V.Spec.Block (Seq)

/-- `LZ4_putIndexOnHash` : a `byU16` table stores 16 bits -/
def store (byU16 : Bool) (idx : Nat) : Nat := if byU16 then idx % 65536 else idx

structure Cfg where
  P     : Params
  s     : Nat        -- startIndex = cctx->currentOffset at entry
  small : Bool       -- dictIssue == dictSmall
  split : Nat := 0   -- `usingExtDict`: position where the source starts in the logical segment `dictionary ++ source` (catch-up stops there: `lowLimit`); 0 otherwise

/-- `lowLimit` of a candidate at position `m` (the start of the segment it lies in) -/
def Cfg.low (C : Cfg) (m : Nat) : Nat := if m ≥ C.split then C.split else 0

def searchR (C : Cfg) (src : Array UInt8) (mfl1 : Nat) : Nat → Nat → Nat → Nat → Array Nat → Option (Nat × Nat × Array Nat)
  | 0, _, _, _, _ => none
  | fuel+1, fip, step, nb, tbl =>
    let h := C.P.hash fip
    let mi := tbl.getD h 0
    let current := C.s + fip
    if fip + step > mfl1 then none else
    let tbl' := tbl.setIfInBounds h (store C.P.byU16 current)
    if (C.small && decide (mi < C.s)) then searchR C src mfl1 fuel (fip + step) (nb >>> LZ4V.Gen.LZ4_skipTrigger) (nb + 1) tbl'
    else if (!C.P.byU16 && decide (mi + LZ4V.Gen.LZ4_DISTANCE_MAX < current)) then searchR C src mfl1 fuel (fip + step) (nb >>> LZ4V.Gen.LZ4_skipTrigger) (nb + 1) tbl'
    else if eq4 src (mi - C.s) fip then some (fip, mi - C.s, tbl')
    else searchR C src mfl1 fuel (fip + step) (nb >>> LZ4V.Gen.LZ4_skipTrigger) (nb + 1) tbl'

/-- the table after a search that found nothing (`goto _last_literals`): every position it looked at was inserted; the table outlives the call -/
def searchTblR (C : Cfg) (mfl1 : Nat) : Nat → Nat → Nat → Nat → Array Nat → Array Nat
  | 0, _, _, _, tbl => tbl
  | fuel+1, fip, step, nb, tbl =>
    if fip + step > mfl1 then tbl else
    searchTblR C mfl1 fuel (fip + step) (nb >>> LZ4V.Gen.LZ4_skipTrigger) (nb + 1) (tbl.setIfInBounds (C.P.hash fip) (store C.P.byU16 (C.s + fip)))

def emitMatchR (C : Cfg) (src : Array UInt8) (st : St) (ip m op litStart ll : Nat) : Res :=
  let n := src.size
  let mfl1 := n - LZ4V.Gen.MFLIMIT + 1
  let matchlimit := n - LZ4V.Gen.LASTLITERALS
  let op3 := op + 2
  let mc := count src matchlimit n (ip + LZ4V.Gen.MINMATCH) (m + LZ4V.Gen.MINMATCH)
  let ipn := ip + mc + LZ4V.Gen.MINMATCH
  if over C.P (op3 + (1 + LZ4V.Gen.LASTLITERALS) + (mc + 240) / 255) then .fail else
  let op4 := op3 + extLen mc
  let s : PSeq := ⟨litStart, ll, ip - m, mc + LZ4V.Gen.MINMATCH⟩
  if ipn ≥ mfl1 then .seq s { st with anchor := ipn, ip := ipn, op := op4, pending := none, fin := true } else
  let tbl1 := st.tbl.setIfInBounds (C.P.hash (ipn - 2)) (store C.P.byU16 (C.s + (ipn - 2)))
  let h := C.P.hash ipn
  let mi := tbl1.getD h 0
  let tbl2 := tbl1.setIfInBounds h (store C.P.byU16 (C.s + ipn))
  if (!C.small || decide (mi ≥ C.s)) && (C.P.byU16 || decide (mi + LZ4V.Gen.LZ4_DISTANCE_MAX ≥ C.s + ipn)) && eq4 src (mi - C.s) ipn then
    .seq s { anchor := ipn, ip := ipn, tbl := tbl2, op := op4, pending := some (mi - C.s), fin := false }
  else
    .seq s { anchor := ipn, ip := ipn + 1, tbl := tbl2, op := op4, pending := none, fin := false }

def stepR (C : Cfg) (src : Array UInt8) (st : St) : Res :=
  let n := src.size
  let mfl1 := n - LZ4V.Gen.MFLIMIT + 1
  if st.fin then .last st else
  match st.pending with
  | some m => emitMatchR C src st st.ip m (st.op + 1) st.ip 0
  | none =>
    match searchR C src mfl1 (n + 1) st.ip 1 (C.P.accel <<< LZ4V.Gen.LZ4_skipTrigger) st.tbl with
    | none => .last { st with tbl := searchTblR C mfl1 (n + 1) st.ip 1 (C.P.accel <<< LZ4V.Gen.LZ4_skipTrigger) st.tbl }
    | some (ip, m, tbl) =>
      let c := catchUpL src st.anchor (C.low m) n ip m
      let ll := c.1 - st.anchor
      let op1 := st.op + 1
      if over C.P (op1 + ll + (2 + 1 + LZ4V.Gen.LASTLITERALS) + ll / 255) then .fail else
      emitMatchR C src { st with tbl := tbl } c.1 c.2 (op1 + extLen ll + ll) st.anchor ll

/-- the table at the moment a step gives up (`return 0` of `limitedOutput`): the insertions of the search that preceded it are in ("Stored indexes in
    hash table are nonetheless fine"); the table outlives the failed call (lz4frame.c goes on using the stream after storing the block raw) -/
def failTbl (C : Cfg) (src : Array UInt8) (st : St) : Array Nat :=
  match st.pending with
  | some _ => st.tbl
  | none =>
    match searchR C src (src.size - LZ4V.Gen.MFLIMIT + 1) (src.size + 1) st.ip 1 (C.P.accel <<< LZ4V.Gen.LZ4_skipTrigger) st.tbl with
    | some (_, _, tbl) => tbl
    | none => st.tbl

/-- the main loop; returns the table as well (it survives the call, also when the call gives up) -/
def runR (C : Cfg) (src : Array UInt8) : Nat → St → List PSeq → Option (List PSeq × St) × Array Nat
  | 0, st, acc => (some (acc.reverse, st), st.tbl)
  | fuel+1, st, acc =>
    match stepR C src st with
    | .fail => (none, failTbl C src st)
    | .last st' => (some (acc.reverse, st'), st'.tbl)
    | .seq s st' => runR C src fuel st' (s :: acc)

/-! ## the state that survives between calls -/

inductive TType | cleared | byU16 | byU32
deriving DecidableEq, Repr

structure RState where
  tbl : Array Nat := #[]
  currentOffset : Nat := 0
  tableType : TType := .cleared

def tableSize (byU16 : Bool) : Nat := if byU16 then 2 * LZ4V.Gen.LZ4_HASH_SIZE_U32 else LZ4V.Gen.LZ4_HASH_SIZE_U32

/-- `LZ4_prepareTable` -/
def prepareTable (S : RState) (n : Nat) (byU16 : Bool) : RState :=
  let want := if byU16 then TType.byU16 else TType.byU32
  let S1 : RState :=
    if S.tableType ≠ .cleared ∧ (S.tableType ≠ want ∨ (byU16 = true ∧ S.currentOffset + n ≥ 0xFFFF) ∨ (byU16 = false ∧ S.currentOffset > LZ4V.Gen.GB1) ∨ n ≥ LZ4V.Gen.KB4)
    then { tbl := Array.replicate (tableSize byU16) 0, currentOffset := 0, tableType := .cleared }
    else if S.tableType = .cleared then { S with tbl := Array.replicate (tableSize byU16) 0 } else S
  if S1.currentOffset ≠ 0 ∧ byU16 = false then { S1 with currentOffset := S1.currentOffset + LZ4V.Gen.KB64 } else S1

/-- one `LZ4_compress_fast_extState_fastReset(state, src, dst, n, cap, acceleration)` : new state, and the block (`none` = returns 0) -/
def call (hashOf : Array UInt8 → Bool → Nat → Nat) (S : RState) (src : Array UInt8) (acceleration : Int) (cap bound : Nat) : RState × Option (List UInt8) :=
  let n := src.size
  let byU16 := decide (n < LZ4V.Gen.LZ4_64Klimit)
  let S1 := prepareTable S n byU16
  let P0 := fastParams src acceleration cap bound
  let P : Params := { P0 with hash := hashOf src byU16 }
  let C : Cfg := { P := P, s := S1.currentOffset, small := byU16 && decide (S1.currentOffset ≠ 0) }
  if n > LZ4V.Gen.LZ4_MAX_INPUT_SIZE then (S1, none) else
  if n = 0 then (S1, if over P 1 then none else some [0]) else
  let S2 : RState := { S1 with currentOffset := S1.currentOffset + n, tableType := if byU16 then .byU16 else .byU32 }
  if n < LZ4V.Gen.LZ4_minLength then
    (S2, if over P (n + 1 + (n + 255 - 15) / 255) then none else some (LZ4V.Spec.Block.serialize [] src.toList))
  else
    let tbl0 := S1.tbl.setIfInBounds (P.hash 0) (store byU16 S1.currentOffset)
    match runR C src (n + 1) { anchor := 0, ip := 1, tbl := tbl0, op := 0 } [] with
    | (none, tbl) => ({ S2 with tbl := tbl }, none)
    | (some (l, st), tbl) =>
      let lastRun := n - st.anchor
      ({ S2 with tbl := tbl },
       if over P (st.op + lastRun + 1 + (lastRun + 255 - 15) / 255) then none
       else some (LZ4V.Spec.Block.serialize (l.map (toSeq src)) (src.extract st.anchor n).toList))

/-- a whole history of calls on one state -/
def history (hashOf : Array UInt8 → Bool → Nat → Nat) : RState → List (Array UInt8 × Int × Nat × Nat) → List (Option (List UInt8))
  | _, [] => []
  | S, (src, acc, cap, bound) :: rest => let r := call hashOf S src acc cap bound; r.2 :: history hashOf r.1 rest

end LZ4V.Model.FastR
