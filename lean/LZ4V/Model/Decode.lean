import LZ4V.Model.Mem
import LZ4V.Gen.Consts
/-!
# Model of `LZ4_decompress_generic` (lib/lz4.c), label by label

One Lean function per C label / stage; cursors are offsets; the output buffer `buf` is the *actual* memory in front
of and including the destination: `buf = prefix bytes (P of them) ++ dst[0, outputSize)`, with **arbitrary initial
content** in the `dst` part, so `oend = buf.size` and `dst` starts at index `P`.
`low` is the index of `lowPrefix` in that coordinate system (an `Int`: `withPrefix64k` declares 64 KB even when the caller
only has 65535 bytes).  `ext` is the external dictionary (`dictStart .. dictEnd`).

Constants come from `LZ4V.Gen` (regenerated from the source); the inline literals of the C guards (`oend-32`,
`iend-(16+1)`, `14+2`, `14+18`) are named here and tied to `Gen.Guards` in `Proofs/DecodeGuards.lean`.
-/
namespace LZ4V.Model.Decode
open LZ4V.Model LZ4V.Gen

inductive Dict | noDict | withPrefix64k | usingExtDict
deriving Repr, DecidableEq

structure Env where
  src      : Bytes
  ext      : Bytes := #[]
  dict     : Dict := .noDict
  partialD : Bool := false       -- partial_decode
  low      : Int := 0            -- lowPrefix, as an index into `buf`
  dst0     : Nat := 0            -- index of `dst` in `buf`
  dictSize : Nat := 0            -- the `dictSize` argument
  fastLoop : Bool := true        -- LZ4_FAST_DEC_LOOP

structure St where
  ip  : Nat
  op  : Nat
  buf : Bytes

inductive Next
  | fast (st : St)      -- next iteration of the fast loop
  | safe (st : St)      -- next iteration of the safe loop
  | done (st : St)      -- `break` : return op - dst

/-- inline guard literals of the C source (see `Gen.Guards.LZ4_decompress_generic`) -/
def fastLitMargin : Nat := 32          -- `op+length > oend-32`, `ip+length > iend-32`
def fastShortLitIn : Nat := 16 + 1     -- `ip <= iend-(16 + 1)`
def shortInMargin : Nat := 14 + 2      -- shortiend = iend - 14 - 2
def shortOutMargin : Nat := 14 + 18    -- shortoend = oend - 14 - 18

/-- `read_variable_length`: returns (sum, new ip); `ilimit` may lie below the buffer (hence `Int`) -/
def readVarLen (src : Bytes) (ip : Nat) (ilimit : Int) (initial : Bool) : Nat → Except Err (Nat × Nat)
  | 0 => .error .fuel
  | fuel+1 =>
    if initial ∧ (ip : Int) ≥ ilimit then .error (.bad ip) else
    if h : ip < src.size then
      if ((ip + 1 : Nat) : Int) > ilimit then .error (.bad (ip+1)) else
      if src[ip].toNat ≠ 255 then .ok (src[ip].toNat, ip + 1) else
        match readVarLen src (ip + 1) ilimit false fuel with
        | .ok (l, ip'') => .ok (255 + l, ip'')
        | .error e => .error e
    else .error (.fault .srcRead)

/-- literal length (token already consumed, `ip` after the token) -/
def litLen (src : Bytes) (ip token : Nat) : Except Err (Nat × Nat) :=
  if token / 16 = RUN_MASK then
    match readVarLen src ip ((src.size : Int) - RUN_MASK) true (src.size + 1) with
    | .ok (addl, ip') => .ok (RUN_MASK + addl, ip')
    | .error e => .error e
  else .ok (token / 16, ip)

/-- match length after `_copy_match` (`ip` after the offset); result includes MINMATCH -/
def matchLen (src : Bytes) (ip token : Nat) : Except Err (Nat × Nat) :=
  if token % 16 = ML_MASK then
    match readVarLen src ip ((src.size : Int) - LASTLITERALS + 1) false (src.size + 1) with
    | .ok (addl, ip') => .ok (ML_MASK + addl + MINMATCH, ip')
    | .error e => .error e
  else .ok (token % 16 + MINMATCH, ip)

/-- the 18-byte shortcut copy: three `memcpy`s of 8, 8 and 2 bytes (offset ≥ 8) -/
def copy18 (buf : Bytes) (op m : Nat) : Except Err Bytes := do
  let b ← memcpyB buf op m 8
  let b ← memcpyB b (op+8) (m+8) 8
  memcpyB b (op+16) (m+16) 2

/-- first 8 bytes of a match with `offset < 8` (`LZ4_memcpy_using_offset_base` and the safe loop):
    returns the buffer and the adjusted match index (as the C code leaves `match`) -/
def smallOffsetHead (buf : Bytes) (op : Nat) (m : Nat) (offset : Nat) : Except Err (Bytes × Int) := do
  let b ← zero4 buf op
  let b ← fwd b op m 4
  let inc := (inc32table.getD offset 0).toNat
  let b ← memcpyB b (op+4) (m + inc) 4
  pure (b, (m : Int) + inc - dec64table.getD offset 0)

/-- match starting in the external dictionary (both loops share this code) -/
def extDictMatch (env : Env) (st : St) (ip : Nat) (m : Int) (length : Nat) : Except Err Next := do
  let oend := st.buf.size
  let length ←
    if st.op + length + LASTLITERALS > oend then
      (if env.partialD then pure (min length (oend - st.op)) else Except.error (Err.bad ip))
    else pure length
  let back := (env.low - m).toNat            -- lowPrefix - match  (> 0 here)
  if length ≤ back then
    -- LZ4_memmove(op, dictEnd - (lowPrefix-match), length)
    if back ≤ env.ext.size then do
      let b ← copyIn st.buf st.op env.ext (env.ext.size - back) .extRead length
      pure (.fast ⟨ip, st.op + length, b⟩)
    else .error (.fault .extRead)
  else
    let copySize := back
    let restSize := length - copySize
    if back ≤ env.ext.size then do
      let b ← copyIn st.buf st.op env.ext (env.ext.size - back) .extRead copySize
      let op := st.op + copySize
      let lowN := env.low.toNat
      if env.low < 0 then .error (.fault .bufRead) else
      -- overlap copy or plain memcpy from lowPrefix: both are a forward copy (memcpy case: restSize ≤ op - lowPrefix)
      let b ← (if restSize > op - lowN then fwd b op lowN restSize else memcpyB b op lowN restSize)
      pure (.fast ⟨ip, op + restSize, b⟩)
    else .error (.fault .extRead)

/-- label `safe_match_copy` : `length` final (incl. MINMATCH), `offset` read, `st.op` after the literals -/
def safeMatch (env : Env) (st : St) (ip offset length : Nat) : Except Err Next :=
  let oend := st.buf.size
  let m : Int := (st.op : Int) - offset
  let checkOffset := env.dictSize < 65536
  if checkOffset ∧ m + env.dictSize < env.low then .error (.bad ip) else
  if env.dict = .usingExtDict ∧ m < env.low then
    match extDictMatch env st ip m length with
    | .ok (.fast s) => .ok (.safe s)
    | .ok n => .ok n
    | .error e => .error e
  else
  if m < 0 then .error (.fault .bufRead) else
  let mN := m.toNat
  let cpy := st.op + length
  if env.partialD ∧ cpy + MATCH_SAFEGUARD_DISTANCE > oend then
    -- partial decoding: may end anywhere within the block
    let mlen := min length (oend - st.op)
    match (if mN + mlen > st.op then fwd st.buf st.op mN mlen else memcpyB st.buf st.op mN mlen) with
    | .error e => .error e
    | .ok b =>
      let s : St := ⟨ip, st.op + mlen, b⟩
      if s.op = oend then .ok (.done s) else .ok (.safe s)
  else
  -- first 8 bytes
  match (if offset < 8 then smallOffsetHead st.buf st.op mN offset
         else (memcpyB st.buf st.op mN 8).map (fun b => (b, (mN : Int) + 8))) with
  | .error e => .error e
  | .ok (b, m2) =>
    if m2 < 0 then .error (.fault .bufRead) else
    let m2N := m2.toNat
    let op8 := st.op + 8
    if cpy + MATCH_SAFEGUARD_DISTANCE > oend then
      let oCopyLimit := oend - (WILDCOPYLENGTH - 1)
      if cpy + LASTLITERALS > oend then .error (.bad ip) else
      if op8 < oCopyLimit then
        match wildCopy8B b op8 m2N oCopyLimit with
        | .error e => .error e
        | .ok b2 =>
          match fwd b2 oCopyLimit (m2N + (oCopyLimit - op8)) (cpy - oCopyLimit) with
          | .error e => .error e
          | .ok b3 => .ok (.safe ⟨ip, cpy, b3⟩)
      else
        match fwd b op8 m2N (cpy - op8) with
        | .error e => .error e
        | .ok b3 => .ok (.safe ⟨ip, cpy, b3⟩)
    else
      match memcpyB b op8 m2N 8 with
      | .error e => .error e
      | .ok b2 =>
        if length > 16 then
          match wildCopy8B b2 (op8 + 8) (m2N + 8) cpy with
          | .error e => .error e
          | .ok b3 => .ok (.safe ⟨ip, cpy, b3⟩)
        else .ok (.safe ⟨ip, cpy, b2⟩)

/-- label `_copy_match` : offset already read, `ip` after the offset, match length still to decode -/
def copyMatchLbl (env : Env) (st : St) (ip offset token : Nat) : Except Err Next :=
  match matchLen env.src ip token with
  | .error e => .error e
  | .ok (length, ip') => safeMatch env st ip' offset length

/-- label `safe_literal_copy` : `length` = literal length, `ip` at the first literal -/
def safeLit (env : Env) (st : St) (ip token length : Nat) : Except Err Next :=
  let oend := st.buf.size
  let iend := env.src.size
  let cpy := st.op + length
  if cpy + MFLIMIT > oend ∨ ip + length + (2 + 1 + LASTLITERALS) > iend then
    -- last sequence, or not enough room for the fast literal copy
    let lenCpy : Except Err (Nat × Nat) :=
      if env.partialD then
        let length1 := if ip + length > iend then iend - ip else length
        let cpy1 := st.op + length1
        if cpy1 > oend then .ok (oend - st.op, oend) else .ok (length1, cpy1)
      else if ip + length ≠ iend ∨ cpy > oend then .error (.bad ip) else .ok (length, cpy)
    match lenCpy with
    | .error e => .error e
    | .ok (length2, cpy2) =>
      match copyIn st.buf st.op env.src ip .srcRead length2 with     -- LZ4_memmove(op, ip, length)
      | .error e => .error e
      | .ok b =>
        let ip2 := ip + length2
        let s : St := ⟨ip2, st.op + length2, b⟩
        if ¬ env.partialD ∨ cpy2 = oend ∨ ip2 + 2 ≥ iend then .ok (.done s) else
        -- partial decoding continues with the match of this sequence
        match rd16 env.src ip2 with
        | .error e => .error e
        | .ok offset => copyMatchLbl env s (ip2 + 2) offset token
  else
    match copyIn st.buf st.op env.src ip .srcRead (wild8len st.op cpy) with   -- LZ4_wildCopy8(op, ip, cpy)
    | .error e => .error e
    | .ok b =>
      let ip2 := ip + length
      match rd16 env.src ip2 with
      | .error e => .error e
      | .ok offset => copyMatchLbl env ⟨ip2, cpy, b⟩ (ip2 + 2) offset token

/-- one iteration of the safe loop, from the token -/
def safeIter (env : Env) (st : St) : Except Err Next :=
  let oend := st.buf.size
  let iend := env.src.size
  match rd8 env.src st.ip with
  | .error e => .error e
  | .ok token =>
    let ip := st.ip + 1
    let length := token / 16
    if length ≠ RUN_MASK ∧ ip + shortInMargin < iend ∧ st.op + shortOutMargin ≤ oend then
      -- two-stage shortcut
      match copyIn st.buf st.op env.src ip .srcRead 16 with
      | .error e => .error e
      | .ok b =>
        let op := st.op + length
        let ip2 := ip + length
        match rd16 env.src ip2 with
        | .error e => .error e
        | .ok offset =>
          let ip3 := ip2 + 2
          let m : Int := (op : Int) - offset
          if token % 16 ≠ ML_MASK ∧ offset ≥ 8 ∧ (env.dict = .withPrefix64k ∨ m ≥ env.low) then
            if m < 0 then .error (.fault .bufRead) else
            match copy18 b op m.toNat with
            | .error e => .error e
            | .ok b2 => .ok (.safe ⟨ip3, op + (token % 16) + MINMATCH, b2⟩)
          else copyMatchLbl env ⟨ip2, op, b⟩ ip3 offset token
    else
      match litLen env.src ip token with
      | .error e => .error e
      | .ok (length, ip2) => safeLit env ⟨st.ip, st.op, st.buf⟩ ip2 token length

/-- in-block match copy of the fast loop (`cpy = op+length`, at least 64 bytes of room) -/
def fastMatchCopy (buf : Bytes) (op mN offset length : Nat) : Except Err Bytes :=
  let cpy := op + length
  if offset < 16 then
    -- LZ4_memcpy_using_offset
    if offset = 1 ∨ offset = 2 ∨ offset = 4 then fwd buf op mN (wild8len op cpy)       -- 8-byte pattern, repeated
    else if offset < 8 then
      match smallOffsetHead buf op mN offset with
      | .error e => .error e
      | .ok (b, m2) => if m2 < 0 then .error (.fault .bufRead) else wildCopy8B b (op+8) m2.toNat cpy
    else
      match memcpyB buf op mN 8 with
      | .error e => .error e
      | .ok b => wildCopy8B b (op+8) (mN+8) cpy
  else wildCopy32B buf op mN cpy

/-- one iteration of the fast loop -/
def fastIter (env : Env) (st : St) : Except Err Next :=
  let oend := st.buf.size
  let iend := env.src.size
  match rd8 env.src st.ip with
  | .error e => .error e
  | .ok token =>
    let ip := st.ip + 1
    -- literals: either copied here, or hand-over to `safe_literal_copy`
    let lit : Except Err (Option (Nat × Nat × Bytes) × Nat × Nat) :=      -- (some (ip, op, buf) | none = go safe, length, ip)
      if token / 16 = RUN_MASK then
        match litLen env.src ip token with
        | .error e => .error e
        | .ok (length, ip2) =>
          if st.op + length + fastLitMargin > oend ∨ ip2 + length + fastLitMargin > iend then .ok (none, length, ip2) else
          match copyIn st.buf st.op env.src ip2 .srcRead (wild32len st.op (st.op + length)) with
          | .error e => .error e
          | .ok b => .ok (some (ip2 + length, st.op + length, b), length, ip2)
      else if ip + fastShortLitIn ≤ iend then
        match copyIn st.buf st.op env.src ip .srcRead 16 with
        | .error e => .error e
        | .ok b => .ok (some (ip + token / 16, st.op + token / 16, b), token / 16, ip)
      else .ok (none, token / 16, ip)
    match lit with
    | .error e => .error e
    | .ok (none, length, ip2) => safeLit env st ip2 token length
    | .ok (some (ip3, op, b), _, _) =>
      match rd16 env.src ip3 with
      | .error e => .error e
      | .ok offset =>
        let ip4 := ip3 + 2
        let m : Int := (op : Int) - offset
        let s : St := ⟨ip3, op, b⟩
        match matchLen env.src ip4 token with
        | .error e => .error e
        | .ok (length, ip5) =>
          if op + length + FASTLOOP_SAFE_DISTANCE ≥ oend then safeMatch env s ip5 offset length else
          if token % 16 ≠ ML_MASK ∧ (env.dict = .withPrefix64k ∨ m ≥ env.low) ∧ offset ≥ 8 then
            if m < 0 then .error (.fault .bufRead) else
            match copy18 b op m.toNat with
            | .error e => .error e
            | .ok b2 => .ok (.fast ⟨ip5, op + length, b2⟩)
          else
          let checkOffset := env.dictSize < 65536
          if checkOffset ∧ m + env.dictSize < env.low then .error (.bad ip5) else
          if env.dict = .usingExtDict ∧ m < env.low then extDictMatch env s ip5 m length else
          if m < 0 then .error (.fault .bufRead) else
          match fastMatchCopy b op m.toNat offset length with
          | .error e => .error e
          | .ok b2 => .ok (.fast ⟨ip5, op + length, b2⟩)

/-- the two `while (1)` loops -/
def loop (env : Env) : Nat → Next → Except Err St
  | 0, _ => .error .fuel
  | _, .done st => .ok st
  | fuel+1, .fast st =>
    match fastIter env st with
    | .error e => .error e
    | .ok n => loop env fuel n
  | fuel+1, .safe st =>
    match safeIter env st with
    | .error e => .error e
    | .ok n => loop env fuel n

/-- result of a call: the C return value and the final buffer -/
structure Result where
  ret : Int
  buf : Bytes

/-- `LZ4_decompress_generic` (src non-NULL, `outputSize = buf.size - dst0 ≥ 0`).
    A clean decode error becomes a negative return value; `.error` is only a memory fault or fuel exhaustion. -/
def generic (env : Env) (buf : Bytes) : Except Err Result :=
  let outputSize := buf.size - env.dst0
  let srcSize := env.src.size
  if outputSize = 0 then
    if env.partialD then .ok ⟨0, buf⟩
    else if srcSize = 1 ∧ env.src[0]! = 0 then .ok ⟨0, buf⟩ else .ok ⟨-1, buf⟩
  else if srcSize = 0 then .ok ⟨-1, buf⟩
  else
    let start : St := ⟨0, env.dst0, buf⟩
    let first : Next := if env.fastLoop ∧ ¬ (outputSize < FASTLOOP_SAFE_DISTANCE) then .fast start else .safe start
    match loop env (srcSize + 2) first with
    | .ok st => .ok ⟨(st.op : Int) - env.dst0, st.buf⟩
    | .error (.bad ip) => .ok ⟨-(ip : Int) - 1, buf⟩      -- buffer content after an error is unspecified; not compared
    | .error e => .error e

/-! ## API wrappers (the functions a user calls) -/

/-- where the dictionary lies relative to the destination -/
inductive Placement | contiguous | external
deriving Repr, DecidableEq

/-- `LZ4_decompress_safe` -/
def decompress_safe (fastLoop : Bool) (src dstInit : Bytes) : Except Err Result :=
  generic { src, fastLoop } dstInit

/-- `LZ4_decompress_safe_partial` : `dstInit` has `dstCapacity` bytes; only the first `min target cap` are handed down -/
def decompress_safe_partial (fastLoop : Bool) (src dstInit : Bytes) (target : Nat) : Except Err Result :=
  let c := min target dstInit.size
  match generic { src, fastLoop, partialD := true } (dstInit.extract 0 c) with
  | .ok r => .ok ⟨r.ret, r.buf ++ dstInit.extract c dstInit.size⟩
  | .error e => .error e

/-- the dispatch of `LZ4_decompress_safe_usingDict` / `_partial_usingDict` on dictionary size and placement;
    `cap` bytes of `dstInit` are visible to the decoder -/
def usingDictEnv (fastLoop partialD : Bool) (src dict : Bytes) (pl : Placement) : Env :=
  if dict.size = 0 then { src, fastLoop, partialD }
  else match pl with
    | .contiguous =>
      if dict.size ≥ 65536 - 1 then
        { src, fastLoop, partialD, dict := .withPrefix64k, low := (dict.size : Int) - 65536, dst0 := dict.size }
      else { src, fastLoop, partialD, dict := .noDict, low := 0, dst0 := dict.size }
    | .external => { src, fastLoop, partialD, dict := .usingExtDict, ext := dict, dictSize := dict.size }

/-- `LZ4_decompress_safe_usingDict`; the result buffer is the destination part only -/
def decompress_safe_usingDict (fastLoop : Bool) (src dstInit dict : Bytes) (pl : Placement) : Except Err Result :=
  let env := usingDictEnv fastLoop false src dict pl
  match generic env ((if env.dst0 = 0 then #[] else dict) ++ dstInit) with
  | .ok r => .ok ⟨r.ret, r.buf.extract env.dst0 r.buf.size⟩
  | .error e => .error e

/-- `LZ4_decompress_safe_partial_usingDict` -/
def decompress_safe_partial_usingDict (fastLoop : Bool) (src dstInit dict : Bytes) (pl : Placement) (target : Nat) : Except Err Result :=
  let c := min target dstInit.size
  let env := usingDictEnv fastLoop true src dict pl
  match generic env ((if env.dst0 = 0 then #[] else dict) ++ dstInit.extract 0 c) with
  | .ok r => .ok ⟨r.ret, r.buf.extract env.dst0 r.buf.size ++ dstInit.extract c dstInit.size⟩
  | .error e => .error e

end LZ4V.Model.Decode
