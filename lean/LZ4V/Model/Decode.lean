import LZ4V.Model.Mem
import LZ4V.Gen.Consts
/-!
# Model of `LZ4_decompress_generic` (lib/lz4.c), label by label

One Lean function per C label / stage; cursors are offsets; the output buffer `buf` is the *actual* memory in front
of and including the destination: `buf = prefix bytes (P of them) ++ dst[0, outputSize)`, with **arbitrary initial
content** in the `dst` part, so `oend = buf.size` and `dst` starts at index `P`.
`low` is the index of `lowPrefix` in that coordinate system (an `Int`: `withPrefix64k` declares 64 KB even when the caller
only has 65535 bytes).  `ext` is the external dictionary (`dictStart .. dictEnd`).

Constants come from `LZ4V.Gen` (regenerated from the source); the inline literals of the C guards (`oend-32`,
`iend-(16+1)`, `14+2`, `14+18`) are named here and tied to `Gen.Guards` in `Proofs/DecodeGuards.lean`.
-/
namespace LZ4V.Model.Decode
open LZ4V.Model LZ4V.Gen

inductive Dict | noDict | withPrefix64k | usingExtDict
deriving Repr, DecidableEq

structure Env where
  src      : Bytes
  ext      : Bytes := #[]
  dict     : Dict := .noDict
  partialD : Bool := false       -- partial_decode
  low      : Int := 0            -- lowPrefix, as an index into `buf`
  dst0     : Nat := 0            -- index of `dst` in `buf`
  dictSize : Nat := 0            -- the `dictSize` argument
  fastLoop : Bool := true        -- LZ4_FAST_DEC_LOOP

structure St where
  ip  : Nat
  op  : Nat
  buf : Bytes

inductive Next
  | fast (st : St)      -- next iteration of the fast loop
  | safe (st : St)      -- next iteration of the safe loop
  | done (st : St)      -- `break` : return op - dst

/-- inline guard literals of the C source (see `Gen.Guards.LZ4_decompress_generic`) -/
def fastLitMargin : Nat := 32          -- `op+length > oend-32`, `ip+length > iend-32`
def fastShortLitIn : Nat := 16 + 1     -- `ip <= iend-(16 + 1)`
def shortInMargin : Nat := 14 + 2      -- shortiend = iend - 14 - 2
def shortOutMargin : Nat := 14 + 18    -- shortoend = oend - 14 - 18

/-- `read_variable_length`: returns (sum, new ip); `ilimit` may lie below the buffer (hence `Int`) -/
def readVarLen (src : Bytes) (ip : Nat) (ilimit : Int) (initial : Bool) : Nat → Except Err (Nat × Nat)
  | 0 => .error .fuel
  | fuel+1 =>
    if initial ∧ (ip : Int) ≥ ilimit then .error (.bad ip) else
    if h : ip < src.size then
      if ((ip + 1 : Nat) : Int) > ilimit then .error (.bad (ip+1)) else
      if src[ip].toNat ≠ 255 then .ok (src[ip].toNat, ip + 1) else
        match readVarLen src (ip + 1) ilimit false fuel with
        | .ok (l, ip'') => .ok (255 + l, ip'')
        | .error e => .error e
    else .error (.fault .srcRead)

/-- literal length (token already consumed, `ip` after the token) -/
def litLen (src : Bytes) (ip token : Nat) : Except Err (Nat × Nat) :=
  if token / 16 = RUN_MASK then
    match readVarLen src ip ((src.size : Int) - RUN_MASK) true (src.size + 1) with
    | .ok (addl, ip') => .ok (RUN_MASK + addl, ip')
    | .error e => .error e
  else .ok (token / 16, ip)

/-- match length after `_copy_match` (`ip` after the offset); result includes MINMATCH -/
def matchLen (src : Bytes) (ip token : Nat) : Except Err (Nat × Nat) :=
  if token % 16 = ML_MASK then
    match readVarLen src ip ((src.size : Int) - LASTLITERALS + 1) false (src.size + 1) with
    | .ok (addl, ip') => .ok (ML_MASK + addl + MINMATCH, ip')
    | .error e => .error e
  else .ok (token % 16 + MINMATCH, ip)

/-- the 18-byte shortcut copy: three `memcpy`s of 8, 8 and 2 bytes (offset ≥ 8) -/
def copy18 (buf : Bytes) (op m : Nat) : Except Err Bytes := do
  let b ← memcpyB buf op m 8
  let b ← memcpyB b (op+8) (m+8) 8
  memcpyB b (op+16) (m+16) 2

/-- distance between `op+8` and the adjusted `match` after the first 8 bytes of a match with `offset < 8`
    (`offset + 8 - inc32table[offset] + dec64table[offset]`) -/
def smallDist (offset : Nat) : Nat := ((offset : Int) + 8 - inc32table.getD offset 0 + dec64table.getD offset 0).toNat

/-- first 8 bytes of a match with `offset < 8` (`LZ4_memcpy_using_offset_base` and the safe loop):
    `write32(op,0)`, four single-byte copies, `memcpy(op+4, match+inc32table[offset], 4)` -/
def smallOffsetHead (buf : Bytes) (op : Nat) (m : Nat) (offset : Nat) : Except Err Bytes := do
  let b ← zero4 buf op
  let b ← fwd b op m 4
  memcpyB b (op+4) (m + (inc32table.getD offset 0).toNat) 4

/-- match starting in the external dictionary (both loops share this code); `back = lowPrefix - match > 0` -/
def extDictMatch (env : Env) (st : St) (ip back length : Nat) : Except Err St :=
  let oend := st.buf.size
  if st.op + length + LASTLITERALS > oend ∧ ¬ env.partialD then .error (.bad ip) else
  let length := if st.op + length + LASTLITERALS > oend then min length (oend - st.op) else length
  if back > env.ext.size then .error (.fault .extRead) else
  if length ≤ back then do
    -- LZ4_memmove(op, dictEnd - (lowPrefix-match), length)
    let b ← copyIn st.buf st.op env.ext (env.ext.size - back) .extRead length
    pure ⟨ip, st.op + length, b⟩
  else do
    let b ← copyIn st.buf st.op env.ext (env.ext.size - back) .extRead back
    if env.low < 0 then .error (.fault .bufRead) else do
    -- overlap copy (byte loop) or plain memcpy from lowPrefix
    let b ← (if length - back > st.op + back - env.low.toNat then fwd b (st.op + back) env.low.toNat (length - back)
             else memcpyB b (st.op + back) env.low.toNat (length - back))
    pure ⟨ip, st.op + length, b⟩

/-- in-block match copy of the safe loop, full-block rules: first 8 bytes, then the careful or the wild tail -/
def safeMatchCopy (buf : Bytes) (ip op mN offset length : Nat) : Except Err Bytes := do
  let oend := buf.size
  let cpy := op + length
  let b ← (if offset < 8 then smallOffsetHead buf op mN offset else memcpyB buf op mN 8)
  let m2 := if offset < 8 then op + 8 - smallDist offset else mN + 8
  if offset < 8 ∧ op + 8 < smallDist offset then .error (.fault .bufRead) else
  if cpy + MATCH_SAFEGUARD_DISTANCE > oend then
    if cpy + LASTLITERALS > oend then .error (.bad ip) else
    if op + 8 < oend - (WILDCOPYLENGTH - 1) then do
      let b2 ← wildCopy8B b (op + 8) m2 (oend - (WILDCOPYLENGTH - 1))
      fwd b2 (oend - (WILDCOPYLENGTH - 1)) (m2 + (oend - (WILDCOPYLENGTH - 1) - (op + 8))) (cpy - (oend - (WILDCOPYLENGTH - 1)))
    else fwd b (op + 8) m2 (cpy - (op + 8))
  else do
    let b2 ← memcpyB b (op + 8) m2 8
    if length > 16 then wildCopy8B b2 (op + 16) (m2 + 8) cpy else pure b2

/-- label `safe_match_copy` : `length` final (incl. MINMATCH), `offset` read, `st.op` after the literals -/
def safeMatch (env : Env) (st : St) (ip offset length : Nat) : Except Err Next :=
  let oend := st.buf.size
  let m : Int := (st.op : Int) - offset
  if env.dictSize < 65536 ∧ m + env.dictSize < env.low then .error (.bad ip) else
  if env.dict = .usingExtDict ∧ m < env.low then do
    let s ← extDictMatch env st ip (env.low - m).toNat length
    pure (.safe s)
  else
  if m < 0 then .error (.fault .bufRead) else
  if env.partialD ∧ st.op + length + MATCH_SAFEGUARD_DISTANCE > oend then do
    -- partial decoding: may end anywhere within the block
    let mlen := min length (oend - st.op)
    let b ← (if m.toNat + mlen > st.op then fwd st.buf st.op m.toNat mlen else memcpyB st.buf st.op m.toNat mlen)
    if st.op + mlen = oend then pure (.done ⟨ip, st.op + mlen, b⟩) else pure (.safe ⟨ip, st.op + mlen, b⟩)
  else do
    let b ← safeMatchCopy st.buf ip st.op m.toNat offset length
    pure (.safe ⟨ip, st.op + length, b⟩)

/-- label `_copy_match` : offset already read, `ip` after the offset, match length still to decode -/
def copyMatchLbl (env : Env) (st : St) (ip offset token : Nat) : Except Err Next := do
  let r ← matchLen env.src ip token
  safeMatch env st r.2 offset r.1

/-- the (length, end) pair of the last-literals branch of `safe_literal_copy` -/
def lastLitLen (env : Env) (st : St) (ip length : Nat) : Except Err Nat :=
  let oend := st.buf.size
  let iend := env.src.size
  if env.partialD then
    let length1 := if ip + length > iend then iend - ip else length
    if st.op + length1 > oend then .ok (oend - st.op) else .ok length1
  else if ip + length ≠ iend ∨ st.op + length > oend then .error (.bad ip) else .ok length

/-- label `safe_literal_copy` : `length` = literal length, `ip` at the first literal -/
def safeLit (env : Env) (st : St) (ip token length : Nat) : Except Err Next :=
  let oend := st.buf.size
  let iend := env.src.size
  if st.op + length + MFLIMIT > oend ∨ ip + length + (2 + 1 + LASTLITERALS) > iend then do
    -- last sequence, or not enough room for the fast literal copy
    let length2 ← lastLitLen env st ip length
    let b ← copyIn st.buf st.op env.src ip .srcRead length2           -- LZ4_memmove(op, ip, length)
    if ¬ env.partialD ∨ st.op + length2 = oend ∨ ip + length2 + 2 ≥ iend then pure (.done ⟨ip + length2, st.op + length2, b⟩) else do
    -- partial decoding continues with the match of this sequence
    let offset ← rd16 env.src (ip + length2)
    copyMatchLbl env ⟨ip + length2, st.op + length2, b⟩ (ip + length2 + 2) offset token
  else do
    let b ← copyIn st.buf st.op env.src ip .srcRead (wild8len st.op (st.op + length))   -- LZ4_wildCopy8(op, ip, cpy)
    let offset ← rd16 env.src (ip + length)
    copyMatchLbl env ⟨ip + length, st.op + length, b⟩ (ip + length + 2) offset token

/-- the two-stage shortcut of the safe loop (token with literal length < 15, enough room on both sides) -/
def shortcut (env : Env) (st : St) (token : Nat) : Except Err Next := do
  let ip := st.ip + 1
  let b ← copyIn st.buf st.op env.src ip .srcRead 16
  let op := st.op + token / 16
  let ip2 := ip + token / 16
  let offset ← rd16 env.src ip2
  let m : Int := (op : Int) - offset
  if token % 16 ≠ ML_MASK ∧ offset ≥ 8 ∧ (env.dict = .withPrefix64k ∨ m ≥ env.low) then
    if m < 0 then .error (.fault .bufRead) else do
    let b2 ← copy18 b op m.toNat
    pure (.safe ⟨ip2 + 2, op + (token % 16) + MINMATCH, b2⟩)
  else copyMatchLbl env ⟨ip2, op, b⟩ (ip2 + 2) offset token

/-- one iteration of the safe loop, from the token -/
def safeIter (env : Env) (st : St) : Except Err Next := do
  let oend := st.buf.size
  let iend := env.src.size
  let token ← rd8 env.src st.ip
  if token / 16 ≠ RUN_MASK ∧ st.ip + 1 + shortInMargin < iend ∧ st.op + shortOutMargin ≤ oend then shortcut env st token
  else do
    let r ← litLen env.src (st.ip + 1) token
    safeLit env st r.2 token r.1

/-- in-block match copy of the fast loop (`cpy = op+length`, at least 64 bytes of room) -/
def fastMatchCopy (buf : Bytes) (op mN offset length : Nat) : Except Err Bytes :=
  let cpy := op + length
  if offset < 16 then
    -- LZ4_memcpy_using_offset
    if offset = 1 ∨ offset = 2 ∨ offset = 4 then fwd buf op mN (wild8len op cpy)       -- 8-byte pattern, repeated
    else if offset < 8 then
      if op + 8 < smallDist offset then .error (.fault .bufRead) else do
      let b ← smallOffsetHead buf op mN offset
      wildCopy8B b (op+8) (op + 8 - smallDist offset) cpy
    else do
      let b ← memcpyB buf op mN 8
      wildCopy8B b (op+8) (mN+8) cpy
  else wildCopy32B buf op mN cpy

/-- the match part of a fast-loop iteration: `s` = state after the literals (`s.ip` at the offset) -/
def fastMatch (env : Env) (s : St) (token : Nat) : Except Err Next := do
  let oend := s.buf.size
  let offset ← rd16 env.src s.ip
  let m : Int := (s.op : Int) - offset
  let r ← matchLen env.src (s.ip + 2) token
  if s.op + r.1 + FASTLOOP_SAFE_DISTANCE ≥ oend then safeMatch env s r.2 offset r.1 else
  if token % 16 ≠ ML_MASK ∧ (env.dict = .withPrefix64k ∨ m ≥ env.low) ∧ offset ≥ 8 then
    if m < 0 then .error (.fault .bufRead) else do
    let b2 ← copy18 s.buf s.op m.toNat
    pure (.fast ⟨r.2, s.op + r.1, b2⟩)
  else
  if env.dictSize < 65536 ∧ m + env.dictSize < env.low then .error (.bad r.2) else
  if env.dict = .usingExtDict ∧ m < env.low then do
    let s2 ← extDictMatch env s r.2 (env.low - m).toNat r.1
    pure (.fast s2)
  else
  if m < 0 then .error (.fault .bufRead) else do
  let b2 ← fastMatchCopy s.buf s.op m.toNat offset r.1
  pure (.fast ⟨r.2, s.op + r.1, b2⟩)

/-- one iteration of the fast loop -/
def fastIter (env : Env) (st : St) : Except Err Next := do
  let oend := st.buf.size
  let iend := env.src.size
  let token ← rd8 env.src st.ip
  let ip := st.ip + 1
  if token / 16 = RUN_MASK then do
    let r ← litLen env.src ip token
    if st.op + r.1 + fastLitMargin > oend ∨ r.2 + r.1 + fastLitMargin > iend then safeLit env st r.2 token r.1 else do
    let b ← copyIn st.buf st.op env.src r.2 .srcRead (wild32len st.op (st.op + r.1))
    fastMatch env ⟨r.2 + r.1, st.op + r.1, b⟩ token
  else if ip + fastShortLitIn ≤ iend then do
    let b ← copyIn st.buf st.op env.src ip .srcRead 16
    fastMatch env ⟨ip + token / 16, st.op + token / 16, b⟩ token
  else safeLit env st ip token (token / 16)

/-- the two `while (1)` loops -/
def loop (env : Env) : Nat → Next → Except Err St
  | 0, _ => .error .fuel
  | _, .done st => .ok st
  | fuel+1, .fast st =>
    match fastIter env st with
    | .error e => .error e
    | .ok n => loop env fuel n
  | fuel+1, .safe st =>
    match safeIter env st with
    | .error e => .error e
    | .ok n => loop env fuel n

/-- result of a call: the C return value and the final buffer -/
structure Result where
  ret : Int
  buf : Bytes

/-- `LZ4_decompress_generic` (src non-NULL, `outputSize = buf.size - dst0 ≥ 0`).
    A clean decode error becomes a negative return value; `.error` is only a memory fault or fuel exhaustion. -/
def generic (env : Env) (buf : Bytes) : Except Err Result :=
  let outputSize := buf.size - env.dst0
  let srcSize := env.src.size
  if outputSize = 0 then
    if env.partialD then .ok ⟨0, buf⟩
    else if srcSize = 1 ∧ env.src[0]! = 0 then .ok ⟨0, buf⟩ else .ok ⟨-1, buf⟩
  else if srcSize = 0 then .ok ⟨-1, buf⟩
  else
    let start : St := ⟨0, env.dst0, buf⟩
    let first : Next := if env.fastLoop ∧ ¬ (outputSize < FASTLOOP_SAFE_DISTANCE) then .fast start else .safe start
    match loop env (srcSize + 2) first with
    | .ok st => .ok ⟨(st.op : Int) - env.dst0, st.buf⟩
    | .error (.bad ip) => .ok ⟨-(ip : Int) - 1, buf⟩      -- buffer content after an error is unspecified; not compared
    | .error e => .error e

/-! ## API wrappers (the functions a user calls) -/

/-- where the dictionary lies relative to the destination -/
inductive Placement | contiguous | external
deriving Repr, DecidableEq

/-- `LZ4_decompress_safe` -/
def decompress_safe (fastLoop : Bool) (src dstInit : Bytes) : Except Err Result :=
  generic { src, fastLoop } dstInit

/-- `LZ4_decompress_safe_partial` : `dstInit` has `dstCapacity` bytes; only the first `min target cap` are handed down -/
def decompress_safe_partial (fastLoop : Bool) (src dstInit : Bytes) (target : Nat) : Except Err Result :=
  let c := min target dstInit.size
  match generic { src, fastLoop, partialD := true } (dstInit.extract 0 c) with
  | .ok r => .ok ⟨r.ret, r.buf ++ dstInit.extract c dstInit.size⟩
  | .error e => .error e

/-- the dispatch of `LZ4_decompress_safe_usingDict` / `_partial_usingDict` on dictionary size and placement;
    `cap` bytes of `dstInit` are visible to the decoder -/
def usingDictEnv (fastLoop partialD : Bool) (src dict : Bytes) (pl : Placement) : Env :=
  if dict.size = 0 then { src, fastLoop, partialD }
  else match pl with
    | .contiguous =>
      if dict.size ≥ 65536 - 1 then
        { src, fastLoop, partialD, dict := .withPrefix64k, low := (dict.size : Int) - 65536, dst0 := dict.size }
      else { src, fastLoop, partialD, dict := .noDict, low := 0, dst0 := dict.size }
    | .external => { src, fastLoop, partialD, dict := .usingExtDict, ext := dict, dictSize := dict.size }

/-- `LZ4_decompress_safe_usingDict`; the result buffer is the destination part only -/
def decompress_safe_usingDict (fastLoop : Bool) (src dstInit dict : Bytes) (pl : Placement) : Except Err Result :=
  let env := usingDictEnv fastLoop false src dict pl
  match generic env ((if env.dst0 = 0 then #[] else dict) ++ dstInit) with
  | .ok r => .ok ⟨r.ret, r.buf.extract env.dst0 r.buf.size⟩
  | .error e => .error e

/-- `LZ4_decompress_safe_partial_usingDict` -/
def decompress_safe_partial_usingDict (fastLoop : Bool) (src dstInit dict : Bytes) (pl : Placement) (target : Nat) : Except Err Result :=
  let c := min target dstInit.size
  let env := usingDictEnv fastLoop true src dict pl
  match generic env ((if env.dst0 = 0 then #[] else dict) ++ dstInit.extract 0 c) with
  | .ok r => .ok ⟨r.ret, r.buf.extract env.dst0 r.buf.size ++ dstInit.extract c dstInit.size⟩
  | .error e => .error e

end LZ4V.Model.Decode
