/-!
# Checked memory primitives for the pointer-level models

Buffers are `Array UInt8`; cursors are `Nat` offsets.  Every access is bounds-checked and returns `Except Err`:
a `fault` is what C would call undefined behaviour (out-of-bounds access, overlapping `memcpy`),
`bad` is a *clean* decode error (the C code's `goto _output_error`), `fuel` is non-termination.
Memory-safety theorems say that no model run ever ends in `fault` or `fuel`.
-/
namespace LZ4V.Model

abbrev Bytes := Array UInt8

inductive Fault | srcRead | bufRead | bufWrite | extRead | overlap
deriving Repr, DecidableEq

inductive Err
  | fault (f : Fault)
  | bad (ip : Nat)          -- clean error; `ip` = input position (the C code returns -(ip-src)-1)
  | fuel
deriving Repr, DecidableEq

/-- copy `n` bytes `src[s..]` → `dst[d..]` (two different objects), ascending -/
def copyIn (dst : Bytes) (d : Nat) (src : Bytes) (s : Nat) (rf : Fault) : Nat → Except Err Bytes
  | 0 => .ok dst
  | n+1 =>
    if hs : s < src.size then
      if _hd : d < dst.size then copyIn (dst.set d src[s]) (d+1) src (s+1) rf n
      else .error (.fault .bufWrite)
    else .error (.fault rf)

/-- forward byte-by-byte copy inside one buffer (`*d++ = *s++`), overlap allowed -/
def fwd (a : Bytes) (d s : Nat) : Nat → Except Err Bytes
  | 0 => .ok a
  | n+1 =>
    if hs : s < a.size then
      if _hd : d < a.size then fwd (a.set d a[s]) (d+1) (s+1) n
      else .error (.fault .bufWrite)
    else .error (.fault .bufRead)

/-- `memcpy` inside one buffer: overlapping ranges are a fault (undefined behaviour in C) -/
def memcpyB (a : Bytes) (d s n : Nat) : Except Err Bytes :=
  if n = 0 then .ok a
  else if d < s + n ∧ s < d + n then .error (.fault .overlap)
  else fwd a d s n

/-- `LZ4_write32(p, 0)` -/
def zero4 (a : Bytes) (d : Nat) : Except Err Bytes :=
  if d + 4 ≤ a.size then .ok ((((a.setIfInBounds d 0).setIfInBounds (d+1) 0).setIfInBounds (d+2) 0).setIfInBounds (d+3) 0)
  else .error (.fault .bufWrite)

/-- number of bytes a `do { copy 8 } while (d < e)` loop writes -/
def wild8len (d e : Nat) : Nat := if e ≤ d then 8 else 8 * ((e - d + 7) / 8)
/-- number of bytes a `do { copy 32 } while (d < e)` loop writes -/
def wild32len (d e : Nat) : Nat := if e ≤ d then 32 else 32 * ((e - d + 31) / 32)

/-- `LZ4_wildCopy8` inside one buffer: 8-byte `memcpy`s, so source and destination must be ≥ 8 apart -/
def wildCopy8B (a : Bytes) (d s e : Nat) : Except Err Bytes :=
  if d < s + 8 ∧ s < d + 8 then .error (.fault .overlap) else fwd a d s (wild8len d e)

/-- `LZ4_wildCopy32` inside one buffer: 16-byte `memcpy`s -/
def wildCopy32B (a : Bytes) (d s e : Nat) : Except Err Bytes :=
  if d < s + 16 ∧ s < d + 16 then .error (.fault .overlap) else fwd a d s (wild32len d e)

def rd8 (src : Bytes) (i : Nat) : Except Err Nat :=
  if h : i < src.size then .ok src[i].toNat else .error (.fault .srcRead)

def rd16 (src : Bytes) (i : Nat) : Except Err Nat :=
  if h : i + 1 < src.size then .ok (src[i].toNat + 256 * src[i+1].toNat) else .error (.fault .srcRead)

end LZ4V.Model
