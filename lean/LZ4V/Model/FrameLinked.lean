import LZ4V.Model.FastX
import LZ4V.Model.FrameFast
/-!
# End-to-end model of LZ4F frame production at the fast levels with LINKED blocks (lib/lz4frame.c), for ANY placement of the blocks

With `blockMode = LZ4F_blockLinked` (the default) every block goes through `LZ4F_compressBlock_continue` = `LZ4_compress_fast_continue` on the context's
one `LZ4_stream_t`, and `LZ4F_localSaveDict` = `LZ4_saveDict(stream, tmpBuff, 64 KB)` moves the history whenever the source cannot be relied on or the
internal buffer is about to wrap.  WHERE each block lies (in the caller's buffer, in `tmpIn`) and WHEN the dictionary is saved is decided by
`LZ4F_compressUpdateImpl` / `LZ4F_flush`; the model takes that schedule as its input — a list of `block addr data` / `save addr k` — and the theorems
quantify over ALL schedules.  The tie records the schedule of the real run (the two calls are interposed) and compares the frame byte for byte.
Stream state: `Model/FastX.lean` (a block that does not fit `srcSize - 1` bytes is stored raw and the stream goes on from the state the failed call leaves).
Configuration: `compressionLevel < LZ4HC_CLEVEL_MIN`, no dictionary, compressed updates only, a compression context that starts fresh.
-/
namespace LZ4V.Model.FrameLinked
open LZ4V.Model LZ4V.Model.FrameFast
open LZ4V.Spec.FrameL (Env Bytes)

/-- FLG without the block-independence bit -/
def descriptorL (p : Prefs) : Bytes :=
  [UInt8.ofNat (64 + 16 * b2n p.blockChecksum + 8 * b2n (decide (p.contentSize > 0)) + 4 * b2n p.contentChecksum + b2n (decide (p.dictID > 0))),
   UInt8.ofNat (p.bsid * 16)] ++
  (if p.contentSize > 0 then encLE 8 p.contentSize else []) ++ (if p.dictID > 0 then encLE 4 p.dictID else [])

def headerL (E : Env) (p : Prefs) : Bytes :=
  encLE 4 LZ4V.Gen.LZ4F_MAGICNUMBER ++ descriptorL p ++ [UInt8.ofNat ((E.hash (descriptorL p) / 256) % 256)]

/-- the schedule `lz4frame.c` follows: which bytes are compressed from where, and when the history is moved -/
inductive LOp
  | block (addr : Nat) (data : Array UInt8)
  | save (addr : Nat) (k : Nat)
  | attach (addr : Nat) (d : Array UInt8)      -- `LZ4F_initStream` with a CDict: `LZ4_resetStream_fast`, then the CDict's stream (prepared by `LZ4_loadDictSlow`) attached
  | load (addr : Nat) (d : Array UInt8)        -- `LZ4F_compressBegin_usingDict`: `LZ4_loadDict` into the working stream

def accelOf (p : Prefs) : Int := if p.level < 0 then -p.level + 1 else 1

/-- `LZ4F_makeBlock` around a compression result -/
def blockBytes (E : Env) (p : Prefs) (r : Option Bytes) (content : Bytes) : Bytes :=
  let payload : Bytes := payloadOf r content
  let raw : Bool := rawOf r content.length
  encLE 4 (payload.length + (if raw then LZ4V.Gen.LZ4F_BLOCKUNCOMPRESSED_FLAG else 0)) ++ payload ++ (if p.blockChecksum then encLE 4 (E.hash payload) else [])

def blocksOf (E : Env) (hashOf : Array UInt8 → Bool → Nat → Nat) (p : Prefs) : FastX.XState → List LOp → Bytes
  | _, [] => []
  | S, .save addr k :: rest => blocksOf E hashOf p (FastX.saveDict S addr k).1 rest
  | S, .attach addr d :: rest => blocksOf E hashOf p (FastX.step hashOf S (.attach addr d true)).1 rest
  | _, .load addr d :: rest => blocksOf E hashOf p (FastX.loadDict hashOf addr d false).1 rest
  | S, .block addr data :: rest =>
    let r := FastX.compress hashOf S addr data (accelOf p) (data.size - 1)
    blockBytes E p r.2 data.toList ++ blocksOf E hashOf p r.1 rest

def contentOf : List LOp → Bytes
  | [] => []
  | .save _ _ :: rest => contentOf rest
  | .attach _ _ :: rest => contentOf rest
  | .load _ _ :: rest => contentOf rest
  | .block _ data :: rest => data.toList ++ contentOf rest

/-- the whole frame for a schedule, the LZ4 stream of the compression context being in state `S0` when the first block arrives (`{}` for a context that
    starts fresh; after earlier frames: whatever `LZ4_resetStream_fast` made of what they left) -/
def frameFrom (E : Env) (hashOf : Array UInt8 → Bool → Nat → Nat) (p : Prefs) (S0 : FastX.XState) (ops : List LOp) : Bytes :=
  headerL E p ++ blocksOf E hashOf p S0 ops ++ encLE 4 0 ++ (if p.contentChecksum then encLE 4 (E.hash (contentOf ops)) else [])

/-- the whole frame for a schedule on a fresh context -/
def frame (E : Env) (hashOf : Array UInt8 → Bool → Nat → Nat) (p : Prefs) (ops : List LOp) : Bytes := frameFrom E hashOf p {} ops

/-- the same schedule written under an independent-blocks header (a CDict frame with independent blocks: every block is preceded by an `attach`) -/
def frameFromI (E : Env) (hashOf : Array UInt8 → Bool → Nat → Nat) (p : Prefs) (S0 : FastX.XState) (ops : List LOp) : Bytes :=
  header E p ++ blocksOf E hashOf p S0 ops ++ encLE 4 0 ++ (if p.contentChecksum then encLE 4 (E.hash (contentOf ops)) else [])

end LZ4V.Model.FrameLinked
