import LZ4V.Gen.Consts
/-!
# Models for the multi-threaded CLI pipelines (programs/threadpool.c, programs/lz4io.c)

## 1. The compression pool with the self-propagating reader chain
Jobs: `C k` (compress chunk k) and `R k` (read chunk k; if it is a full chunk push `C k` then `R (k+1)`; if it is a
non-empty partial chunk push `C k` only; if empty, stop).  Every step is one critical section of `threadpool.c`
(pop, push, finish).  `Step` is a relation: any enabled step may fire, so every schedule (incl. every choice of which
waiter a signal wakes, and spurious wake-ups, which only re-test a guard) is covered.

## 2. The write register (`LZ4IO_checkWriteOrder`, `WR_*`)
A pure function over the arrival order of write jobs.
-/
namespace LZ4V.Model.Pool

inductive Job | C (k : Nat) | R (k : Nat)
deriving DecidableEq, Repr

/-- program counter of the running reader job -/
inductive RPc | start | pushedC | done
deriving DecidableEq, Repr

structure State where
  queue   : List Job               -- FIFO, head = next to pop
  runC    : Nat                    -- workers currently executing a C job
  runR    : Option (Nat × RPc)     -- the reader job being executed, if any
  nFull   : Nat                    -- chunks 0 .. nFull-1 are full chunks
  partialLast : Bool               -- chunk nFull exists and is a non-empty partial chunk
  workers : Nat                    -- threadLimit
  cap     : Nat                    -- queue capacity (second argument of TPool_create)

def busy (s : State) : Nat := s.runC + (if s.runR.isSome then 1 else 0)

/-- one critical section -/
inductive Step : State → State → Prop
  | popC  (s : State) (k : Nat) (rest : List Job) : s.queue = Job.C k :: rest → busy s < s.workers →
      Step s { s with queue := rest, runC := s.runC + 1 }
  | popR  (s : State) (k : Nat) (rest : List Job) : s.queue = Job.R k :: rest → busy s < s.workers → s.runR = none →
      Step s { s with queue := rest, runR := some (k, .start) }
  | finC  (s : State) : 0 < s.runC → Step s { s with runC := s.runC - 1 }
  -- reader: a (full or partial) chunk was read -> push C k  (enabled only if the queue is not full)
  | pushC (s : State) (k : Nat) : s.runR = some (k, .start) → (k < s.nFull ∨ (k = s.nFull ∧ s.partialLast)) → s.queue.length < s.cap →
      Step s { s with queue := s.queue ++ [Job.C k], runR := some (k, .pushedC) }
  -- reader: the chunk was full -> likely more: push R (k+1)
  | pushR (s : State) (k : Nat) : s.runR = some (k, .pushedC) → k < s.nFull → s.queue.length < s.cap →
      Step s { s with queue := s.queue ++ [Job.R (k+1)], runR := some (k, .done) }
  -- reader: the chunk was partial -> no successor
  | lastC (s : State) (k : Nat) : s.runR = some (k, .pushedC) → ¬ k < s.nFull →
      Step s { s with runR := some (k, .done) }
  -- reader: nothing left to read
  | eof   (s : State) (k : Nat) : s.runR = some (k, .start) → ¬ (k < s.nFull ∨ (k = s.nFull ∧ s.partialLast)) →
      Step s { s with runR := some (k, .done) }
  | finR  (s : State) (k : Nat) : s.runR = some (k, .done) → Step s { s with runR := none }

/-- shape invariant: the queue is one of [], [C], [R], [C, R], in step with the reader's program counter -/
def Inv (s : State) : Prop :=
  match s.runR with
  | some (_, .start)   => s.queue = []
  | some (k, .pushedC) => s.queue = [] ∨ s.queue = [Job.C k]
  | some (k, .done)    => (s.queue = [] ∨ (∃ j, s.queue = [Job.C j]) ∨ s.queue = [Job.R (k+1)] ∨ s.queue = [Job.C k, Job.R (k+1)])
  | none               => s.queue = [] ∨ (∃ j, s.queue = [Job.C j]) ∨ (∃ j, s.queue = [Job.R j]) ∨ (∃ i j, s.queue = [Job.C i, Job.R j])

theorem inv_step (s s' : State) (h : Inv s) (st : Step s s') : Inv s' := by
  cases st with
  | popC k rest hq hb =>
    simp only [Inv] at h ⊢
    split at h <;> simp_all
    all_goals (first | omega | (rcases h with h | h | h | h <;> simp_all) | (rcases h with h | h <;> simp_all) | skip)
  | popR k rest hq hb hr =>
    simp only [Inv] at h ⊢
    simp_all
  | finC hc =>
    simp only [Inv] at h ⊢
    exact h
  | pushC k hr hk hc =>
    simp only [Inv] at h ⊢
    simp_all
  | pushR k hr hk hc =>
    simp only [Inv] at h ⊢
    simp_all
    rcases h with h | h <;> simp_all
  | lastC k hr hk =>
    simp only [Inv] at h ⊢
    simp_all
    rcases h with h | h
    · exact Or.inl h
    · exact Or.inr (Or.inl ⟨k, h⟩)
  | eof k hr hk =>
    simp only [Inv] at h ⊢
    simp_all
  | finR k hr =>
    simp only [Inv] at h ⊢
    simp_all
    rcases h with h | h | h | h
    · exact Or.inl h
    · exact Or.inr (Or.inl h)
    · exact Or.inr (Or.inr (Or.inl ⟨_, h⟩))
    · exact Or.inr (Or.inr (Or.inr ⟨_, _, h⟩))

theorem inv_len (s : State) (h : Inv s) : s.queue.length ≤ 2 := by
  simp only [Inv] at h
  split at h
  · simp [h]
  · rcases h with h | h <;> simp [h]
  · rcases h with h | ⟨j, h⟩ | h | h <;> simp [h]
  · rcases h with h | ⟨j, h⟩ | ⟨j, h⟩ | ⟨i, j, h⟩ <;> simp [h]

/-- reachability from an ignition state -/
inductive ReachFrom (s0 : State) : State → Prop
  | refl : ReachFrom s0 s0
  | step {s s'} : ReachFrom s0 s → Step s s' → ReachFrom s0 s'

theorem reach_inv {s0 s : State} (h0 : Inv s0) (h : ReachFrom s0 s) : Inv s ∧ s.cap = s0.cap := by
  induction h with
  | refl => exact ⟨h0, rfl⟩
  | step _ st ih =>
    refine ⟨inv_step _ _ ih.1 st, ?_⟩
    cases st <;> simp_all

/-- the legacy pipeline ignites the chain with `R 0`; the LZ4F pipeline (main thread read chunk 0 itself) with `C 0, R 1` -/
def igniteLegacy (nFull : Nat) (part : Bool) (w cap : Nat) : State := ⟨[Job.R 0], 0, none, nFull, part, w, cap⟩
def igniteLZ4F (nFull : Nat) (part : Bool) (w cap : Nat) : State := ⟨[Job.C 0, Job.R 1], 0, none, nFull, part, w, cap⟩

theorem igniteLegacy_inv (n : Nat) (p : Bool) (w c : Nat) : Inv (igniteLegacy n p w c) :=
  Or.inr (Or.inr (Or.inl ⟨0, rfl⟩))
theorem igniteLZ4F_inv (n : Nat) (p : Bool) (w c : Nat) : Inv (igniteLZ4F n p w c) :=
  Or.inr (Or.inr (Or.inr ⟨0, 1, rfl⟩))

/-- For every worker count, chunk count, last-chunk shape and schedule: whenever a job wants to push into its own
    pool, the queue (capacity ≥ 3, the code uses 4) has room.  So no job ever waits on `queuePushCond` of its own
    pool, the main thread (in `TPool_jobsCompleted`) is the only possible waiter on it, and a `pthread_cond_signal`
    can never be "stolen" by a waiter of another kind: the latent lost-wake-up of the shared condition variable is
    unreachable in the compression pipelines. -/
theorem push_never_blocks {s0 s : State} (h0 : Inv s0) (hc : 3 ≤ s0.cap) (h : ReachFrom s0 s) :
    s.queue.length < s.cap := by
  obtain ⟨hi, hcap⟩ := reach_inv h0 h
  have := inv_len s hi
  omega

end LZ4V.Model.Pool

namespace LZ4V.Model.WR

/-- the write register: stored out-of-order buffers and the next expected rank -/
structure State where
  stored   : List (Nat × List UInt8)     -- (rank, payload), in arrival order
  expected : Nat
  out      : List (List UInt8)           -- payloads written so far, in write order

def init : State := ⟨[], 0, []⟩

/-- the `while (WR_isPresent(expectedRank))` drain loop; fuel = number of stored buffers + 1 -/
def drain : Nat → State → State
  | 0, s => s
  | fuel+1, s =>
    match s.stored.find? (fun b => b.1 == s.expected) with
    | some b => drain fuel { stored := s.stored.filter (fun x => x.1 != s.expected), expected := s.expected + 1, out := s.out ++ [b.2] }
    | none => s

/-- `LZ4IO_checkWriteOrder` for one arriving job -/
def arrive (s : State) (job : Nat × List UInt8) : State :=
  if job.1 ≠ s.expected then { s with stored := s.stored ++ [job] }
  else drain (s.stored.length + 1) { s with expected := s.expected + 1, out := s.out ++ [job.2] }

def run (jobs : List (Nat × List UInt8)) : State := jobs.foldl arrive init

end LZ4V.Model.WR
