import LZ4V.Model.FrameDS
/-!
# Model of the read side of lib/lz4file.c: `LZ4F_readOpen`, `LZ4F_read`

The `FILE*` is the list of bytes not yet read (`fread(buf, 1, n, fp)` returns the next `min n remaining` bytes; no I/O error), the decompression
context is the dStage machine of `Model/FrameDS.lean`, `srcBuf[srcBufNext .. srcBufSize)` is `buf`.
-/
namespace LZ4V.Model.FileR
open LZ4V.Model.FrameDS
open LZ4V.Spec.FrameL (Env Bytes)

structure Reader where
  c      : Ctx
  file   : Bytes          -- not yet read from the FILE*
  buf    : Bytes          -- read but not yet handed to the decoder
  maxBuf : Nat            -- srcBufMaxSize

/-- `LZ4F_readOpen` on a fresh decompression context -/
def readOpen (E : Env) (file : Bytes) : Except Nat Reader :=
  let head := file.take LZ4V.Gen.LZ4F_HEADER_SIZE_MAX
  if head.length < LZ4V.Gen.LZ4F_HEADER_SIZE_MIN + LZ4V.Gen.LZ4F_ENDMARK_SIZE then .error LZ4V.Gen.LZ4F_ERROR_io_read else
  let r := getFrameInfo E {} head
  match r.ret, r.info with
  | .hint _, some info =>
    (match (if info.blockSizeID = 0 then some 65536 else if info.blockSizeID = LZ4V.Gen.LZ4F_max64KB then some 65536
            else if info.blockSizeID = LZ4V.Gen.LZ4F_max256KB then some 262144 else if info.blockSizeID = LZ4V.Gen.LZ4F_max1MB then some 1048576
            else if info.blockSizeID = LZ4V.Gen.LZ4F_max4MB then some 4194304 else none) with
     | some m => .ok { c := r.c, file := file.drop head.length, buf := head.drop r.consumed, maxBuf := m }
     | none => .error LZ4V.Gen.LZ4F_ERROR_maxBlockSize_invalid)
  | .error e, _ => .error e
  | _, _ => .error LZ4V.Gen.LZ4F_ERROR_GENERIC

/-- the `while (next < size)` loop of `LZ4F_read`: `got` = bytes delivered so far by this call -/
def readLoop (E : Env) : Nat → Reader → Nat → Bytes → Except Nat (Reader × Bytes)
  | 0, r, _, got => .ok (r, got)                      -- fuel (proved sufficient in Proofs/FileRProof.lean)
  | fuel+1, r, size, got =>
    if got.length ≥ size then .ok (r, got) else
    -- refill when the buffer is empty
    let r1 : Option Reader := if r.buf.length = 0 then (if r.file.length = 0 then none else some { r with buf := r.file.take r.maxBuf, file := r.file.drop r.maxBuf }) else some r
    match r1 with
    | none => .ok (r, got)                            -- fread returned 0: end of file
    | some r1 =>
      let d := decompress E r1.c r1.buf (size - got.length) false
      match d.ret with
      | .error e => .error e
      | .stuck => .error 0
      | .hint _ => readLoop E fuel { r1 with c := d.c, buf := r1.buf.drop d.consumed } size (got ++ d.out)

/-- `LZ4F_read(reader, buf, size)`: the bytes returned (their number is the return value) -/
def read (E : Env) (r : Reader) (size : Nat) : Except Nat (Reader × Bytes) :=
  readLoop E (r.file.length + r.buf.length + size + 2) r size []

/-- a whole reading session: the successive results of `LZ4F_read` with the given sizes -/
def readAll (E : Env) : Reader → List Nat → Except Nat (List Bytes)
  | _, [] => .ok []
  | r, s :: rest =>
    match read E r s with
    | .error e => .error e
    | .ok (r', got) =>
      match readAll E r' rest with
      | .error e => .error e
      | .ok l => .ok (got :: l)

end LZ4V.Model.FileR
