/-!
# Model of the LZ4F compression context's buffering state machine (lib/lz4frame.c)

Mirrors `LZ4F_compressBegin_internal`, `LZ4F_compressUpdateImpl` (incl. the flush on a switch between compressed and
uncompressed updates), `LZ4F_flush`, `LZ4F_compressEnd` at the level of *which input bytes go into which block*.
What is abstracted: the bytes of a block's payload (compressed or stored raw: decided by `LZ4F_makeBlock`, judged by the
specification parser) and where the buffered bytes physically live (`tmpBuff` juggling, observed with ASan).
-/
namespace LZ4V.Model.FrameC

structure Ctx where
  stage     : Nat := 0            -- cStage: 0 = no frame open, 1 = frame open
  blockSize : Nat := 65536
  autoFlush : Bool := false
  uncompressedMode : Bool := false   -- blockCompressMode of the data currently buffered
  buffered  : List UInt8 := []    -- tmpIn[0, tmpInSize)
  totalIn   : Nat := 0
deriving Repr

inductive Op
  | begin (blockSize : Nat) (autoFlush : Bool)
  | update (src : List UInt8) (uncompressed : Bool)
  | flush
  | finish
deriving Repr

inductive Err | notInitialized
deriving Repr, DecidableEq

/-- what a call emits: the raw contents of the data blocks, in order, and whether the frame was closed -/
structure Emit where
  blocks : List (List UInt8) := []
  closed : Bool := false
deriving Repr

/-- `while ((srcEnd - srcPtr) >= blockSize)` : full blocks straight from the source -/
def fullBlocks (bs : Nat) : Nat → List UInt8 → List (List UInt8) × List UInt8
  | 0, src => ([], src)
  | fuel+1, src =>
    if bs ≤ src.length ∧ 0 < bs then
      let r := fullBlocks bs fuel (src.drop bs)
      (src.take bs :: r.1, r.2)
    else ([], src)

def flushBlocks (c : Ctx) : List (List UInt8) := if c.buffered = [] then [] else [c.buffered]

/-- `LZ4F_compressUpdateImpl` after the mode-switch flush -/
def updateCore (c : Ctx) (src : List UInt8) : Ctx × List (List UInt8) :=
  -- complete the tmp buffer
  let (first, src1, buf1) : List (List UInt8) × List UInt8 × List UInt8 :=
    if c.buffered ≠ [] then
      if c.blockSize - c.buffered.length > src.length then ([], [], c.buffered ++ src)
      else ([c.buffered ++ src.take (c.blockSize - c.buffered.length)], src.drop (c.blockSize - c.buffered.length), [])
    else ([], src, [])
  let fb := fullBlocks c.blockSize (src1.length + 1) src1
  let (tail, rest) : List (List UInt8) × List UInt8 := if c.autoFlush ∧ fb.2 ≠ [] then ([fb.2], []) else ([], fb.2)
  ({ c with buffered := if rest ≠ [] then rest else buf1, totalIn := c.totalIn + src.length }, first ++ fb.1 ++ tail)

def step (c : Ctx) : Op → Except Err (Ctx × Emit)
  | .begin bs af => .ok ({ stage := 1, blockSize := bs, autoFlush := af, uncompressedMode := false, buffered := [], totalIn := 0 }, {})
  | .update src unc =>
    if c.stage ≠ 1 then .error .notInitialized else
    let pre := if c.uncompressedMode ≠ unc then flushBlocks c else []
    let c1 := if c.uncompressedMode ≠ unc then { c with buffered := [], uncompressedMode := unc } else c
    let r := updateCore c1 src
    .ok (r.1, { blocks := pre ++ r.2 })
  | .flush =>
    if c.stage ≠ 1 then (if c.buffered = [] then .ok (c, {}) else .error .notInitialized) else
    .ok ({ c with buffered := [] }, { blocks := flushBlocks c })
  | .finish =>
    if c.stage ≠ 1 then (if c.buffered = [] then .ok ({ c with stage := 0 }, { closed := true }) else .error .notInitialized) else
    .ok ({ c with buffered := [], stage := 0 }, { blocks := flushBlocks c, closed := true })

/-- run a call history; returns the final context and everything emitted -/
def run (c : Ctx) : List Op → Except Err (Ctx × List (List UInt8))
  | [] => .ok (c, [])
  | op :: rest =>
    match step c op with
    | .error e => .error e
    | .ok (c1, e) =>
      match run c1 rest with
      | .error e2 => .error e2
      | .ok (c2, bs) => .ok (c2, e.blocks ++ bs)

/-- the input bytes a history feeds after its last `begin` -/
def fed : List Op → List UInt8
  | [] => []
  | .update src _ :: rest => src ++ fed rest
  | _ :: rest => fed rest

/-! ## lib/lz4file.c : `LZ4F_write` feeds `LZ4F_compressUpdate` slices of at most `maxWriteSize` bytes -/

/-- `LZ4F_write` : split one write into chunks of at most `maxW` bytes (fuel = length + 1) -/
def chunks (maxW : Nat) : Nat → List UInt8 → List (List UInt8)
  | 0, _ => []
  | fuel+1, w => if w = [] then [] else if 0 < maxW then w.take maxW :: chunks maxW fuel (w.drop maxW) else [w]

/-- the update calls a sequence of writes turns into -/
def writeOps (maxW : Nat) (writes : List (List UInt8)) : List Op :=
  (writes.map (fun w => (chunks maxW (w.length + 1) w).map (fun ch => Op.update ch false))).flatten

end LZ4V.Model.FrameC
