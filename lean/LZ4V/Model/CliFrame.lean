import LZ4V.Model.FrameFast
import LZ4V.Gen.Funcs
/-!
# Model of the archive `lz4` writes in its default (LZ4 frame) format at a fast level (programs/lz4io.c)

`LZ4IO_compressFilename_extRess_MT` / `_ST` with `LZ4IO_createCResources`: the prepared preferences (`autoFlush = 1`, block size id,
block checksum, content checksum from the command line, independent blocks), then

* the **single-pass** path — the first `fread` returned less than the chunk (4 MiB in the multi-threaded build, the block size in the
  single-threaded one): ONE call of `LZ4F_compressFrame_usingCDict`, which replaces the block size id by `LZ4F_optimalBSID` (regenerated:
  `Gen/Funcs.lean`), begins a frame on the fresh context, feeds the whole input in one update and ends the frame;
* the **streaming** path of the single-threaded build: `LZ4F_compressBegin_usingCDict`, one `LZ4F_compressUpdate` per block-size read,
  `LZ4F_compressEnd`.

Both are instances of `Model/FrameFast.lean`'s `frameOfOps`.  Not modelled here: the multi-threaded build above 4 MiB (chunk jobs),
linked blocks (`-BD`), dictionaries (`-D`), HC levels.
-/
namespace LZ4V.Model.CliFrame
open LZ4V.Model LZ4V.Model.FrameFast
open LZ4V.Spec.FrameL (Env Bytes)

/-- the command line, as far as it reaches the frame -/
structure Opts where
  bsidReq         : Nat      -- `-B4` .. `-B7`, default 7
  blockChecksum   : Bool     -- `-BX`
  contentChecksum : Bool     -- default on, `--no-frame-crc` clears it
  contentSize     : Bool     -- `--content-size` and the input is a regular file
  level           : Int      -- `-1`, `--fast=N` (as `-N`)

/-- `chunkSize` of `LZ4IO_compressFilename_extRess_MT` -/
def mtChunk : Nat := 4194304

def prefsSingle (o : Opts) (n : Nat) : Prefs :=
  Prefs.mk (LZ4V.Gen.LZ4F_optimalBSID o.bsidReq n).toNat o.blockChecksum o.contentChecksum (if o.contentSize then n else 0) 0 o.level true

def prefsStream (o : Opts) (n : Nat) : Prefs :=
  Prefs.mk o.bsidReq o.blockChecksum o.contentChecksum (if o.contentSize then n else 0) 0 o.level true

/-- `LZ4F_compressFrame_usingCDict(ctx, dst, dstCap, src, readSize, NULL, &prefs)` -/
def single (E : Env) (hashOf : Array UInt8 → Bool → Nat → Nat) (o : Opts) (src : Bytes) : Option Bytes :=
  frameOfOps E hashOf (prefsSingle o src.length) [FrameC.Op.update src false]

/-- the read loop of `_ST`: one update per `fread` of `blockSize` bytes -/
def streamed (E : Env) (hashOf : Array UInt8 → Bool → Nat → Nat) (o : Opts) (src : Bytes) : Option Bytes :=
  frameOfOps E hashOf (prefsStream o src.length) (FrameC.writeOps (LZ4V.Spec.Frame.blockSizeOf o.bsidReq) [src])

/-- the archive; `none` where this model does not apply (multi-threaded build, input of 4 MiB or more) -/
def archive (E : Env) (hashOf : Array UInt8 → Bool → Nat → Nat) (mt : Bool) (o : Opts) (src : Bytes) : Option Bytes :=
  if mt then (if src.length < mtChunk then single E hashOf o src else none)
  else if src.length < LZ4V.Spec.Frame.blockSizeOf o.bsidReq then single E hashOf o src else streamed E hashOf o src

end LZ4V.Model.CliFrame
