import LZ4V.Model.FastR
import LZ4V.Model.FrameC
import LZ4V.Spec.FrameL
/-!
# End-to-end model of LZ4F frame production at the fast levels with independent blocks (lib/lz4frame.c)

`LZ4F_compressBegin` (header), `LZ4F_compressUpdate` / `LZ4F_flush` / `LZ4F_compressEnd` (which input bytes go into which block:
`Model/FrameC.lean`), `LZ4F_makeBlock` (each block compressed by `LZ4_compress_fast_extState_fastReset` on the context's ONE LZ4 state
with capacity `srcSize - 1`: `Model/FastR.lean`; stored raw when that fails), block checksums, end mark, content checksum.
Configuration modelled: `compressionLevel < LZ4HC_CLEVEL_MIN`, `blockMode = independent`, no dictionary, compressed updates only,
a compression context that starts fresh.  The checksum function is a parameter (`FrameL.Env.hash`).
-/
namespace LZ4V.Model.FrameFast
open LZ4V.Model
open LZ4V.Spec.FrameL (Env Bytes)

/-- `LZ4F_writeLE32` / `LZ4F_writeLE64` -/
def encLE : Nat → Nat → Bytes
  | 0, _ => []
  | k+1, v => UInt8.ofNat (v % 256) :: encLE k (v / 256)

structure Prefs where
  bsid            : Nat            -- 4..7
  blockChecksum   : Bool
  contentChecksum : Bool
  contentSize     : Nat            -- 0 = not declared
  dictID          : Nat            -- 0 = none
  level           : Int            -- < LZ4HC_CLEVEL_MIN
  autoFlush       : Bool

def b2n (b : Bool) : Nat := if b then 1 else 0

def descriptor (p : Prefs) : Bytes :=
  [UInt8.ofNat (64 + 32 + 16 * b2n p.blockChecksum + 8 * b2n (decide (p.contentSize > 0)) + 4 * b2n p.contentChecksum + b2n (decide (p.dictID > 0))),
   UInt8.ofNat (p.bsid * 16)] ++
  (if p.contentSize > 0 then encLE 8 p.contentSize else []) ++ (if p.dictID > 0 then encLE 4 p.dictID else [])

/-- what `LZ4F_compressBegin` writes -/
def header (E : Env) (p : Prefs) : Bytes :=
  encLE 4 LZ4V.Gen.LZ4F_MAGICNUMBER ++ descriptor p ++ [UInt8.ofNat ((E.hash (descriptor p) / 256) % 256)]

/-- `if (cSize == 0 || cSize >= srcSize)` : the block is stored raw -/
def rawOf (r : Option Bytes) (n : Nat) : Bool := match r with | some blk => decide (blk.length ≥ n) | none => true
def payloadOf (r : Option Bytes) (content : Bytes) : Bytes := match r with | some blk => (if blk.length ≥ content.length then content else blk) | none => content

/-- `LZ4F_makeBlock` with `LZ4F_compressBlock` : new LZ4 state, block bytes -/
def makeBlock (E : Env) (hashOf : Array UInt8 → Bool → Nat → Nat) (p : Prefs) (S : FastR.RState) (content : Bytes) : FastR.RState × Bytes :=
  let src := content.toArray
  let n := content.length
  let acceleration : Int := if p.level < 0 then -p.level + 1 else 1
  let r := FastR.call hashOf S src acceleration (n - 1) (LZ4V.Gen.LZ4_compressBound n).toNat
  let payload : Bytes := payloadOf r.2 content
  let raw : Bool := rawOf r.2 n
  (r.1, encLE 4 (payload.length + (if raw then LZ4V.Gen.LZ4F_BLOCKUNCOMPRESSED_FLAG else 0)) ++ payload ++
        (if p.blockChecksum then encLE 4 (E.hash payload) else []))

def makeBlocks (E : Env) (hashOf : Array UInt8 → Bool → Nat → Nat) (p : Prefs) : FastR.RState → List Bytes → Bytes
  | _, [] => []
  | S, b :: rest => let r := makeBlock E hashOf p S b; r.2 ++ makeBlocks E hashOf p r.1 rest

/-- the whole frame for the blocks `blocks` (as `Model/FrameC.lean` cuts the input), the LZ4 state of the compression context being `S0` when the first
    block arrives (`{}` on a context that starts fresh; after earlier frames: whatever they left — `LZ4F_compressBegin` does not reset it in this mode) -/
def frameFrom (E : Env) (hashOf : Array UInt8 → Bool → Nat → Nat) (p : Prefs) (S0 : FastR.RState) (blocks : List Bytes) : Bytes :=
  header E p ++ makeBlocks E hashOf p S0 blocks ++ encLE 4 0 ++ (if p.contentChecksum then encLE 4 (E.hash blocks.flatten) else [])

def frame (E : Env) (hashOf : Array UInt8 → Bool → Nat → Nat) (p : Prefs) (blocks : List Bytes) : Bytes := frameFrom E hashOf p {} blocks

/-- the frame a call history produces on a context whose LZ4 state is `S0` -/
def frameOfOpsFrom (E : Env) (hashOf : Array UInt8 → Bool → Nat → Nat) (p : Prefs) (S0 : FastR.RState) (ops : List FrameC.Op) : Option Bytes :=
  match FrameC.run {} (FrameC.Op.begin (LZ4V.Spec.Frame.blockSizeOf p.bsid) p.autoFlush :: ops ++ [FrameC.Op.finish]) with
  | .error _ => none
  | .ok (_, blocks) => some (frameFrom E hashOf p S0 blocks)

/-- the frame a call history produces on a fresh context -/
def frameOfOps (E : Env) (hashOf : Array UInt8 → Bool → Nat → Nat) (p : Prefs) (ops : List FrameC.Op) : Option Bytes :=
  match FrameC.run {} (FrameC.Op.begin (LZ4V.Spec.Frame.blockSizeOf p.bsid) p.autoFlush :: ops ++ [FrameC.Op.finish]) with
  | .error _ => none
  | .ok (_, blocks) => some (frame E hashOf p blocks)

end LZ4V.Model.FrameFast
