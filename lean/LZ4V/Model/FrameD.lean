import LZ4V.Spec.FrameL
import LZ4V.Gen.Consts
import LZ4V.Gen.Funcs
/-!
# Model of `LZ4F_decodeHeader` (lib/lz4frame.c), the LZ4-frame path

Mirrors the C statement by statement with the C's own bit operations (`>>`, `&`), reading bytes by index as the C does.
`needMore` is the `dstage_storeFrameHeader` exit (not enough input for the header size announced by FLG).
The skippable-frame path and the `dctx` bookkeeping are not modelled here.
-/
namespace LZ4V.Model.FrameD
open LZ4V.Spec.FrameL
open LZ4V.Spec.Frame (Header blockSizeOf)

inductive HErr
  | frameHeader_incomplete | frameType_unknown | reservedFlag_set | headerVersion_wrong | maxBlockSize_invalid | headerChecksum_invalid
deriving Repr, DecidableEq

inductive HRes
  | needMore (target : Nat)
  | done (hdr : Header) (size : Nat)

def byteAt (src : Bytes) (i : Nat) : Nat := (src.getD i 0).toNat

def decodeHeader (hash : Bytes → Nat) (src : Bytes) : Except HErr HRes :=
  if src.length < LZ4V.Gen.minFHSize then .error .frameHeader_incomplete else
  if le (src.take 4) ≠ LZ4V.Gen.LZ4F_MAGICNUMBER then .error .frameType_unknown else
  let FLG := byteAt src 4
  let version := (FLG >>> 6) &&& 3
  let blockChecksumFlag := (FLG >>> 4) &&& 1
  let blockMode := (FLG >>> 5) &&& 1
  let contentSizeFlag := (FLG >>> 3) &&& 1
  let contentChecksumFlag := (FLG >>> 2) &&& 1
  let dictIDFlag := FLG &&& 1
  if ((FLG >>> 1) &&& 1) ≠ 0 then .error .reservedFlag_set else
  if version ≠ 1 then .error .headerVersion_wrong else
  let frameHeaderSize := LZ4V.Gen.minFHSize + (if contentSizeFlag ≠ 0 then 8 else 0) + (if dictIDFlag ≠ 0 then 4 else 0)
  if src.length < frameHeaderSize then .ok (.needMore frameHeaderSize) else
  let BD := byteAt src 5
  let blockSizeID := (BD >>> 4) &&& 7
  if ((BD >>> 7) &&& 1) ≠ 0 then .error .reservedFlag_set else
  if blockSizeID < 4 then .error .maxBlockSize_invalid else
  if (BD &&& 15) ≠ 0 then .error .reservedFlag_set else
  let HC := (hash ((src.drop 4).take (frameHeaderSize - 5)) >>> 8) &&& 255
  if HC ≠ byteAt src (frameHeaderSize - 1) then .error .headerChecksum_invalid else
  .ok (.done { blockIndep := blockMode == 1, blockChecksum := blockChecksumFlag == 1,
               contentSize := if contentSizeFlag ≠ 0 then some (le ((src.drop 6).take 8)) else none,
               contentChecksum := contentChecksumFlag == 1,
               dictId := if dictIDFlag ≠ 0 then some (le ((src.drop (frameHeaderSize - 5)).take 4)) else none,
               bsid := blockSizeID, maxBlock := (LZ4V.Gen.LZ4F_getBlockSize blockSizeID).toNat,
               size := frameHeaderSize } frameHeaderSize)

/-- the specification's view of the same bytes: magic number then frame descriptor -/
def specHeader (E : Env) : Parser Header :=
  (takeN 4).bind fun m4 => if le m4 ≠ lz4Magic then Parser.fail .magic else pHeader E

end LZ4V.Model.FrameD
