import LZ4V.Model.Fast
import LZ4V.Model.FrameC
import LZ4V.Model.FrameFast
/-!
# Model of `lz4 -l` (legacy format) at the fast levels (programs/lz4io.c : `LZ4IO_compressLegacy_internal`, `LZ4IO_compressBlockLegacy_fast`)

The input is cut into blocks of `LEGACY_BLOCKSIZE` (8 MB); each block is compressed by `LZ4_compress_fast` (a fresh state per block,
capacity `LZ4_compressBound`) and written as `LE32 compressedSize | block`; the archive starts with the legacy magic number.
Worker threads and the write register only decide WHEN a block is written (`Properties/C13`, `C04`): the bytes are these.
-/
namespace LZ4V.Model.Legacy
open LZ4V.Model
open LZ4V.Spec.FrameL (Bytes)
open LZ4V.Model.FrameFast (encLE)

/-- `LZ4IO_compressBlockLegacy_fast` : `cLevel < 0 ? -cLevel : 0`, then `LZ4_compress_fast` clamps it -/
def accelOf (level : Int) : Int := if level < 0 then -level else 0

def block (level : Int) (chunk : Bytes) : Option Bytes :=
  (Fast.compressFast chunk.toArray (accelOf level) (LZ4V.Gen.LZ4_compressBound chunk.length).toNat (LZ4V.Gen.LZ4_compressBound chunk.length).toNat).map
    (fun blk => encLE 4 blk.length ++ blk)

def blocks (level : Int) : List Bytes → Option Bytes
  | [] => some []
  | c :: rest => match block level c, blocks level rest with
    | some b, some r => some (b ++ r)
    | _, _ => none

/-- the archive `lz4 -l` writes for `input` (levels below 3) -/
def archive (level : Int) (input : Bytes) : Option Bytes :=
  (blocks level (FrameC.chunks LZ4V.Gen.LEGACY_BLOCKSIZE (input.length + 1) input)).map (fun b => encLE 4 LZ4V.Gen.LEGACY_MAGICNUMBER ++ b)

end LZ4V.Model.Legacy
