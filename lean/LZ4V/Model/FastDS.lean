import LZ4V.Model.Fast
/-!
# Model of `LZ4_compress_destSize` (lib/lz4.c : `LZ4_compress_generic_validated` with `outputDirective == fillOutput`)

Same instance as `Model/Fast.lean` (single segment, fresh state, byU16/byU32), output directive `fillOutput`: compress as
much of the input as fits `cap` bytes.  The three `fillOutput` tests (before the literals, at `_next_match`, on the
match-length bytes with the reduction of the match and the clearing of hash positions beyond the new `ip`), the adaptation of
the last run, and `*inputConsumed` are mirrored; search, catch-up and `LZ4_count` are the functions of `Model/Fast.lean`.
-/
namespace LZ4V.Model.FastDS
open LZ4V.Model.Fast
open LZ4V.Spec.Block (Seq)

structure StD where
  anchor   : Nat
  ip       : Nat
  tbl      : Array Nat
  op       : Nat
  pending  : Option Nat := none
  fin      : Bool := false
  filledIp : Nat := 0

inductive ResD
  | seq (s : PSeq) (st : StD)
  | last (st : StD)             -- `goto _last_literals` (or the loop's `break`) with `st.op`, `st.anchor`

/-- `for (ptr = ip; ptr <= filledIp; ++ptr) LZ4_clearHash(LZ4_hashPosition(ptr), …)` -/
def clearRange (P : Params) : Nat → Array Nat → Nat → Array Nat
  | 0, tbl, _ => tbl
  | k+1, tbl, p => clearRange P k (tbl.setIfInBounds (P.hash p) 0) (p + 1)

/-- "Match description too long : reduce it" : the match code that still leaves room for the last literals -/
def redMc (cap op3 mc0 : Nat) : Nat :=
  if op3 + (1 + LZ4V.Gen.LASTLITERALS) + (mc0 + 240) / 255 > cap then 15 - 1 + (cap - op3 - 1 - LZ4V.Gen.LASTLITERALS) * 255 else mc0

/-- "… if ip ends up less than filledIp we have positions in the hash table beyond the current position … remove these positions" -/
def redTbl (P : Params) (tbl : Array Nat) (filledIp cap op3 mc0 ipn : Nat) : Array Nat :=
  if op3 + (1 + LZ4V.Gen.LASTLITERALS) + (mc0 + 240) / 255 > cap ∧ ipn ≤ filledIp then clearRange P (filledIp + 1 - ipn) tbl ipn else tbl

/-- `_next_match` … "test next position" under `fillOutput`; `op` = position after the literals, `token` = position of the token -/
def emitMatchD (P : Params) (cap : Nat) (src : Array UInt8) (st : StD) (ip m op token a ll : Nat) : ResD :=
  let n := src.size
  let mfl1 := n - LZ4V.Gen.MFLIMIT + 1
  let matchlimit := n - LZ4V.Gen.LASTLITERALS
  if op + 2 + 1 + LZ4V.Gen.MFLIMIT - LZ4V.Gen.MINMATCH > cap then .last { st with op := token } else
  let op3 := op + 2
  let mc0 := count src matchlimit n (ip + LZ4V.Gen.MINMATCH) (m + LZ4V.Gen.MINMATCH)
  let mc := redMc cap op3 mc0
  let ipn := ip + mc + LZ4V.Gen.MINMATCH
  let tbl0 := redTbl P st.tbl st.filledIp cap op3 mc0 ipn
  let op4 := op3 + extLen mc
  let s : PSeq := ⟨a, ll, ip - m, mc + LZ4V.Gen.MINMATCH⟩
  if ipn ≥ mfl1 then .seq s { st with anchor := ipn, ip := ipn, tbl := tbl0, op := op4, pending := none, fin := true } else
  let tbl1 := tbl0.setIfInBounds (P.hash (ipn - 2)) (ipn - 2)
  let h := P.hash ipn
  let mi := tbl1.getD h 0
  let tbl2 := tbl1.setIfInBounds h ipn
  if (P.byU16 || mi + LZ4V.Gen.LZ4_DISTANCE_MAX ≥ ipn) && eq4 src mi ipn then
    .seq s { st with anchor := ipn, ip := ipn, tbl := tbl2, op := op4, pending := some mi, fin := false }
  else
    .seq s { st with anchor := ipn, ip := ipn + 1, tbl := tbl2, op := op4, pending := none, fin := false }

def stepD (P : Params) (cap : Nat) (src : Array UInt8) (st : StD) : ResD :=
  let n := src.size
  let mfl1 := n - LZ4V.Gen.MFLIMIT + 1
  if st.fin then .last st else
  match st.pending with
  | some m => emitMatchD P cap src st st.ip m (st.op + 1) st.op st.ip 0
  | none =>
    match search P src mfl1 (n + 1) st.ip 1 (P.accel <<< LZ4V.Gen.LZ4_skipTrigger) st.tbl with
    | none => .last st
    | some (ip, m, tbl) =>
      let c := catchUp src st.anchor n ip m
      let ll := c.1 - st.anchor
      let op1 := st.op + 1
      if op1 + (ll + 240) / 255 + ll + 2 + 1 + LZ4V.Gen.MFLIMIT - LZ4V.Gen.MINMATCH > cap then .last { st with tbl := tbl } else
      emitMatchD P cap src { st with tbl := tbl, filledIp := ip } c.1 c.2 (op1 + extLen ll + ll) st.op st.anchor ll

def runD (P : Params) (cap : Nat) (src : Array UInt8) : Nat → StD → List PSeq × StD
  | 0, st => ([], st)
  | fuel+1, st =>
    match stepD P cap src st with
    | .last st' => ([], st')
    | .seq s st' => let r := runD P cap src fuel st'; (s :: r.1, r.2)

def runDTR (P : Params) (cap : Nat) (src : Array UInt8) : Nat → StD → List PSeq → List PSeq × StD
  | 0, st, acc => (acc.reverse, st)
  | fuel+1, st, acc =>
    match stepD P cap src st with
    | .last st' => (acc.reverse, st')
    | .seq s st' => runDTR P cap src fuel st' (s :: acc)

/-- `_last_literals` under `fillOutput` : how many last literals are written -/
def lastRunD (cap op lastRun : Nat) : Nat :=
  if op + lastRun + 1 + (lastRun + 255 - 15) / 255 > cap then
    let lr := cap - op - 1
    lr - (lr + 256 - 15) / 256
  else lastRun

/-- sequences, start of the last literals, number of last literals (`inputConsumed` = their sum); `none` = returns 0 -/
def compressDP (P : Params) (cap : Nat) (src : Array UInt8) (tableSize : Nat) (tr : Bool) : Option (List PSeq × Nat × Nat) :=
  let n := src.size
  if n > LZ4V.Gen.LZ4_MAX_INPUT_SIZE then none else
  if cap < 1 then none else
  if n < LZ4V.Gen.LZ4_minLength then some ([], 0, lastRunD cap 0 n)
  else
    let tbl0 := (Array.replicate tableSize 0).setIfInBounds (P.hash 0) 0
    let st0 : StD := { anchor := 0, ip := 1, tbl := tbl0, op := 0 }
    let r := if tr then runDTR P cap src (n + 1) st0 [] else runD P cap src (n + 1) st0
    some (r.1, r.2.anchor, lastRunD cap r.2.op (n - r.2.anchor))

/-- what `LZ4_compress_destSize_extState(state, src, dst, &srcSize, target, acceleration)` does on the fill-output path
    (`target < LZ4_compressBound(n)`): (bytes consumed, block); `none` = returns 0 -/
def compressDestSize (src : Array UInt8) (acceleration : Int) (target : Nat) : Option (Nat × List UInt8) :=
  match compressDP (fastParams src acceleration 0 1) target src (fastTableSize src) true with
  | none => none
  | some (l, anchor, lr) =>
    some (anchor + lr, LZ4V.Spec.Block.serialize (l.map (toSeq src)) (src.extract anchor (anchor + lr)).toList)

end LZ4V.Model.FastDS
