import LZ4V.Model.FastR
/-!
# Model of an `LZ4_stream_t` over a whole life: `LZ4_compress_fast_continue` in ANY placement, `LZ4_saveDict`, `LZ4_loadDict(Slow)`, `LZ4_resetStream_fast`

State kept between calls (lib/lz4.h `LZ4_stream_t_internal`): hash table, `currentOffset`, `tableType` (cleared or not), and the dictionary: its ADDRESS
and its bytes.  Addresses are inputs of the model (where the caller put the source, the safe buffer, the dictionary), so the pointer tests of
`LZ4_compress_fast_continue` are decided by the model, as in the C:

* `dictEnd == source` → *prefix mode* (one segment `dictionary ++ source`);
* otherwise → *external dictionary mode* (`usingExtDict`): candidates below `startIndex` lie in the dictionary (`dictBase + matchIndex`), a match may run
  from the dictionary into the source, catch-up stops at the start of the segment the match lies in (`lowLimit`); afterwards the dictionary is the block
  just compressed;
* before that: `LZ4_renormDictT`, the invalidation of tiny dictionaries (`dictSize < 4`), and the trimming of a dictionary whose space the new source
  overlaps (`sourceEnd` inside the dictionary: only the part after `sourceEnd` is kept, at most 64 KB, nothing if `< 4`).

In both modes the compressor sees the logical segment `dictionary ++ source`, indexed from `currentOffset - dictSize`: the loop is `FastR.runR` with
`Cfg.split` = `dictSize` (external) or `0` (prefix).  `usingDictCtx` (`LZ4_attach_dictionary`) is not modelled.
-/
namespace LZ4V.Model.FastX
open LZ4V.Model.Fast LZ4V.Model.FastR

/-- an attached dictionary stream (`dictCtx`): what `LZ4_loadDict(Slow)` left in ANOTHER `LZ4_stream_t`; never written by the working stream -/
structure DCtx where
  tbl : Array Nat
  currentOffset : Nat
  dict : Array UInt8
  dictAddr : Nat

structure XState where
  tbl : Array Nat := Array.replicate LZ4V.Gen.LZ4_HASH_SIZE_U32 0
  currentOffset : Nat := 0
  dict : Array UInt8 := #[]       -- the bytes of the dictionary (`dictSize = dict.size`)
  dictAddr : Nat := 0             -- `dictionary` (address of its first byte; 0 = NULL)
  used : Bool := false            -- `tableType != clearedTable`
  dctx : Option DCtx := none      -- `dictCtx` (`LZ4_attach_dictionary`)

inductive Op
  | compress (addr : Nat) (data : Array UInt8) (acceleration : Int) (cap : Nat)
  | saveDict (addr : Nat) (k : Nat)
  | loadDict (addr : Nat) (d : Array UInt8) (slow : Bool)
  | reset
  | attach (addr : Nat) (d : Array UInt8) (slow : Bool)    -- `LZ4_resetStream_fast(stream)`, `LZ4_loadDict(Slow)(dictStream, (char*)addr, |d|)`, `LZ4_attach_dictionary(stream, dictStream)`

def lastN (a : Array UInt8) (k : Nat) : Array UInt8 := a.extract (a.size - k) a.size

/-- `LZ4_renormDictT` -/
def renorm (S : XState) (n : Nat) : XState :=
  if S.currentOffset + n > 0x80000000 then
    let delta := S.currentOffset - LZ4V.Gen.KB64
    let ds := if S.dict.size > LZ4V.Gen.KB64 then LZ4V.Gen.KB64 else S.dict.size
    { S with tbl := S.tbl.map (fun v => if v < delta then 0 else v - delta), currentOffset := LZ4V.Gen.KB64,
             dict := lastN S.dict ds, dictAddr := S.dictAddr + S.dict.size - ds }
  else S

def clampAccel (acceleration : Int) : Nat :=
  if acceleration < 1 then LZ4V.Gen.LZ4_ACCELERATION_DEFAULT else if acceleration > LZ4V.Gen.LZ4_ACCELERATION_MAX then LZ4V.Gen.LZ4_ACCELERATION_MAX else acceleration.toNat

/-- the part of `LZ4_compress_fast_continue` before the mode is chosen: rescale, tiny dictionary, overlap.  Returns the state and `dictEnd == source` -/
def adjust (S0 : XState) (addr n : Nat) : XState × Bool :=
  let dictEnd0 : Option Nat := if S0.dict.size ≠ 0 then some (S0.dictAddr + S0.dict.size) else none
  let S1 := renorm S0 n
  let tiny := decide (S1.dict.size < 4) && decide (dictEnd0 ≠ some addr) && decide (n > 0) && S1.dctx.isNone
  let S2 : XState := if tiny then { S1 with dict := #[], dictAddr := addr } else S1
  let dictEnd : Option Nat := if tiny then some addr else dictEnd0
  let srcEnd := addr + n
  let S3 : XState :=
    match dictEnd with
    | some e =>
      if srcEnd > S2.dictAddr ∧ srcEnd < e then
        let ds := e - srcEnd
        let ds := if ds > LZ4V.Gen.KB64 then LZ4V.Gen.KB64 else ds
        let ds := if ds < 4 then 0 else ds
        { S2 with dict := lastN S2.dict ds, dictAddr := e - ds }
      else S2
    | none => S2
  (S3, decide (dictEnd = some addr))

/-- `LZ4_compress_generic(…, limitedOutput, byU32, withPrefix64k | usingExtDict, dictSmall | noDictIssue, …)` and the state update that follows it -/
def core (hashOf : Array UInt8 → Bool → Nat → Nat) (S : XState) (contig : Bool) (addr : Nat) (data : Array UInt8) (acceleration : Int) (cap : Nat) :
    XState × Option (List UInt8) :=
  let n := data.size
  -- the dictionary after the call
  let dict' := if contig then S.dict ++ data else data
  let addr' := if contig then S.dictAddr else addr
  if n = 0 then ((if contig then S else { S with dict := #[], dictAddr := addr }), if cap < 1 then none else some [0]) else
  let pre := S.dict.size
  let seg := S.dict ++ data
  let P : Params := { hash := hashOf seg false, byU16 := false, accel := clampAccel acceleration, limit := some cap }
  let C : Cfg := { P := P, s := S.currentOffset - pre, small := decide (S.currentOffset - pre ≠ 0), split := if contig then 0 else pre }
  let S2 : XState := { S with currentOffset := S.currentOffset + n, used := true, dict := dict', dictAddr := addr' }
  if n > LZ4V.Gen.LZ4_MAX_INPUT_SIZE then (S, none) else      -- refused before any update; the life ends here (`run`), the state is not used again
  if n < LZ4V.Gen.LZ4_minLength then
    (S2, if over P (n + 1 + (n + 255 - 15) / 255) then none else some (LZ4V.Spec.Block.serialize [] data.toList))
  else
    let tbl0 := S.tbl.setIfInBounds (P.hash pre) (store false S.currentOffset)
    match runR C seg (seg.size + 1) { anchor := pre, ip := pre + 1, tbl := tbl0, op := 0 } [] with
    | (none, tbl) => ({ S2 with tbl := tbl }, none)
    | (some (l, st), tbl) =>
      let lastRun := seg.size - st.anchor
      ({ S2 with tbl := tbl },
       if over P (st.op + lastRun + 1 + (lastRun + 255 - 15) / 255) then none
       else some (LZ4V.Spec.Block.serialize (l.map (toSeq seg)) (seg.extract st.anchor seg.size).toList))

/-- the table the `usingDictCtx` search sees: a slot of the working table that holds nothing of the current block (`matchIndex < startIndex`) is looked
    up in the dictionary stream's table instead, its index shifted by `dictDelta = startIndex - dictCtx->currentOffset` -/
def mergedTbl (own dt : Array Nat) (startIndex delta : Nat) : Array Nat :=
  (Array.range own.size).map (fun h => if own.getD h 0 < startIndex then dt.getD h 0 + delta else own.getD h 0)

/-- … and what the working table holds afterwards: its own insertions of this block, everything else as it was -/
def restoreTbl (own0 final : Array Nat) (startIndex : Nat) : Array Nat :=
  (Array.range own0.size).map (fun h => if final.getD h 0 < startIndex then own0.getD h 0 else final.getD h 0)

/-- `LZ4_compress_fast_continue(stream, (char*)addr, dst, n, cap, acceleration)` -/
def compress (hashOf : Array UInt8 → Bool → Nat → Nat) (S : XState) (addr : Nat) (data : Array UInt8) (acceleration : Int) (cap : Nat) : XState × Option (List UInt8) :=
  let a := adjust S addr data.size
  let T := a.1
  match (if a.2 then none else T.dctx) with
  | none => core hashOf T a.2 addr data acceleration cap
  | some D =>
    if data.size = 0 then core hashOf T false addr data acceleration cap          -- returns before `dictCtx` is looked at; it stays attached
    else if data.size > LZ4V.Gen.KB4 then
      -- `LZ4_memcpy(streamPtr, streamPtr->dictCtx, sizeof(*streamPtr))` then `usingExtDict, noDictIssue`
      core hashOf { tbl := D.tbl, currentOffset := D.currentOffset, dict := D.dict, dictAddr := D.dictAddr, used := true, dctx := none } false addr data acceleration cap
    else if T.currentOffset < D.currentOffset then ({ T with dctx := none }, none)                          -- `dictDelta` would wrap: not modelled (never happens with a loaded dictionary stream)
    else
      -- `usingDictCtx, noDictIssue` : two tables
      let r := core hashOf { T with tbl := mergedTbl T.tbl D.tbl T.currentOffset (T.currentOffset - D.currentOffset), dict := D.dict, dictAddr := D.dictAddr } false addr data acceleration cap
      ({ r.1 with tbl := restoreTbl T.tbl r.1.tbl T.currentOffset, dctx := none }, r.2)

/-- `LZ4_saveDict(stream, (char*)addr, k)` : new state and the return value -/
def saveDict (S : XState) (addr k : Nat) : XState × Nat :=
  let k1 := if k > LZ4V.Gen.KB64 then LZ4V.Gen.KB64 else k
  let k2 := if k1 > S.dict.size then S.dict.size else k1
  ({ S with dict := lastN S.dict k2, dictAddr := addr }, k2)

/-- the first table-filling loop of `LZ4_loadDict_internal`: every third position, later positions overwrite -/
def fill3 (h : Nat → Nat) (idx0 size : Nat) : Nat → Nat → Array Nat → Array Nat
  | 0, _, tbl => tbl
  | fuel+1, p, tbl => if p + 8 ≤ size then fill3 h idx0 size fuel (p + 3) (tbl.setIfInBounds (h p) (idx0 + p)) else tbl

/-- the second loop (`_ld_slow`): every position, only into slots that hold nothing from the dictionary -/
def fill1 (h : Nat → Nat) (idx0 size limit : Nat) : Nat → Nat → Array Nat → Array Nat
  | 0, _, tbl => tbl
  | fuel+1, p, tbl =>
    if p + 8 ≤ size then fill1 h idx0 size limit fuel (p + 1) (if tbl.getD (h p) 0 ≤ limit then tbl.setIfInBounds (h p) (idx0 + p) else tbl) else tbl

/-- `LZ4_loadDict` / `LZ4_loadDictSlow` : new state and the return value -/
def loadDict (hashOf : Array UInt8 → Bool → Nat → Nat) (addr : Nat) (d : Array UInt8) (slow : Bool) : XState × Nat :=
  let off := LZ4V.Gen.KB64
  if d.size < 8 then ({ currentOffset := off }, 0) else
  let ds := if d.size > LZ4V.Gen.KB64 then LZ4V.Gen.KB64 else d.size
  let dd := lastN d ds
  let idx0 := off - ds
  let t1 := fill3 (hashOf dd false) idx0 ds (ds + 1) 0 (Array.replicate LZ4V.Gen.LZ4_HASH_SIZE_U32 0)
  let t2 := if slow then fill1 (hashOf dd false) idx0 ds (off - LZ4V.Gen.KB64) (ds + 1) 0 t1 else t1
  ({ tbl := t2, currentOffset := off, dict := dd, dictAddr := addr + d.size - ds, used := true }, ds)

/-- `LZ4_resetStream_fast` -/
def reset (S : XState) : XState :=
  let S1 : XState := if S.used ∧ S.currentOffset > LZ4V.Gen.GB1 then { S with tbl := Array.replicate LZ4V.Gen.LZ4_HASH_SIZE_U32 0, currentOffset := 0, used := false } else S
  { S1 with currentOffset := if S1.currentOffset ≠ 0 then S1.currentOffset + LZ4V.Gen.KB64 else 0, dict := #[], dictAddr := 0, dctx := none }

/-- what one operation returns -/
inductive Out
  | block (b : Option (List UInt8))    -- `none` : the call returned 0
  | size (k : Nat)
  | unit
deriving BEq

def step (hashOf : Array UInt8 → Bool → Nat → Nat) (S : XState) : Op → XState × Out
  | .compress addr data acc cap => let r := compress hashOf S addr data acc cap; (r.1, .block r.2)
  | .saveDict addr k => let r := saveDict S addr k; (r.1, .size r.2)
  | .loadDict addr d slow => let r := loadDict hashOf addr d slow; (r.1, .size r.2)
  | .reset => (reset S, .unit)
  | .attach addr d slow =>
    let D := (loadDict hashOf addr d slow).1
    let R := reset S
    ({ R with currentOffset := if R.currentOffset = 0 then LZ4V.Gen.KB64 else R.currentOffset,
              dctx := if D.dict.size = 0 then none else some { tbl := D.tbl, currentOffset := D.currentOffset, dict := D.dict, dictAddr := D.dictAddr } }, .unit)

/-- a life of the stream: the outputs, up to and including the first compression that fails (after which the stream may only be reset: the
    model stops there) -/
def run (hashOf : Array UInt8 → Bool → Nat → Nat) : XState → List Op → List Out
  | _, [] => []
  | S, op :: rest =>
    match step hashOf S op with
    | (_, .block none) => [.block none]
    | (S', o) => o :: run hashOf S' rest

end LZ4V.Model.FastX
