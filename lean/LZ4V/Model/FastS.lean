import LZ4V.Model.FastR
/-!
# Model of `LZ4_compress_fast_continue` on a CONTIGUOUS stream (lib/lz4.c): every block follows the previous one in memory

On a stream that was reset (`LZ4_resetStream_fast`, `LZ4_initStream`) the first call takes the "tiny dictionary" branch and every later call whose source
starts where the previous one ended takes the *prefix mode* branch: `LZ4_compress_generic(…, limitedOutput, byU32, withPrefix64k, dictSmall | noDictIssue, …)`.
In that mode the compressor sees one memory segment `[source - dictSize, source + inputSize)`, indexes it from `currentOffset - dictSize`, starts at `source`
and may catch up / match backwards into the prefix.  That is `FastR.runR` (the loop of `Model/FastR.lean`) on the segment, started at position `dictSize`
with `Cfg.s = currentOffset - dictSize` (the index of the first byte of the segment, `prefixIdxLimit` in the C).

`dictSmall` is selected by the C when `dictSize < 64 KB ∧ dictSize < currentOffset`; the model tests `matchIndex < prefixIdxLimit` whenever
`prefixIdxLimit ≠ 0`: in the remaining case (`dictSize ≥ 64 KB`) such a candidate is more than `LZ4_DISTANCE_MAX` away and the C rejects it on the next line.

Also modelled: `LZ4_renormDictT` (index rescale beyond 2 GB), the state updates (`dictSize += n`, `currentOffset += n`), empty blocks, and that a call
which returns 0 ends the session (lz4.h: after an error the stream can only be reset).
-/
namespace LZ4V.Model.FastS
open LZ4V.Model.Fast LZ4V.Model.FastR

structure SState where
  tbl : Array Nat := Array.replicate LZ4V.Gen.LZ4_HASH_SIZE_U32 0
  currentOffset : Nat := 0
  dictSize : Nat := 0
  mem : Array UInt8 := #[]        -- everything compressed so far (contiguous in memory); the dictionary is its last `dictSize` bytes

/-- `LZ4_renormDictT` -/
def renorm (S : SState) (n : Nat) : SState :=
  if S.currentOffset + n > 0x80000000 then
    let delta := S.currentOffset - LZ4V.Gen.KB64
    { S with tbl := S.tbl.map (fun v => if v < delta then 0 else v - delta), currentOffset := LZ4V.Gen.KB64,
             dictSize := if S.dictSize > LZ4V.Gen.KB64 then LZ4V.Gen.KB64 else S.dictSize }
  else S

def clampAccel (acceleration : Int) : Nat :=
  if acceleration < 1 then LZ4V.Gen.LZ4_ACCELERATION_DEFAULT else if acceleration > LZ4V.Gen.LZ4_ACCELERATION_MAX then LZ4V.Gen.LZ4_ACCELERATION_MAX else acceleration.toNat

/-- one `LZ4_compress_fast_continue(stream, mem_end, dst, n, cap, acceleration)` with `data` placed right after what was compressed before:
    new state and the block (`none`: the call returns 0) -/
def call (hashOf : Array UInt8 → Bool → Nat → Nat) (S0 : SState) (data : Array UInt8) (acceleration : Int) (cap : Nat) : SState × Option (List UInt8) :=
  let n := data.size
  let S := renorm S0 n
  if n = 0 then (S, if cap < 1 then none else some [0]) else
  let pre := S.dictSize
  let seg := S.mem.extract (S.mem.size - pre) S.mem.size ++ data          -- [source - dictSize, source + n)
  let P : Params := { hash := hashOf seg false, byU16 := false, accel := clampAccel acceleration, limit := some cap }
  let C : Cfg := { P := P, s := S.currentOffset - pre, small := decide (S.currentOffset - pre ≠ 0) }
  let S2 : SState := { S with currentOffset := S.currentOffset + n, dictSize := S.dictSize + n, mem := S.mem ++ data }
  if n > LZ4V.Gen.LZ4_MAX_INPUT_SIZE then (S2, none) else
  if n < LZ4V.Gen.LZ4_minLength then
    (S2, if over P (n + 1 + (n + 255 - 15) / 255) then none else some (LZ4V.Spec.Block.serialize [] data.toList))
  else
    let tbl0 := S.tbl.setIfInBounds (P.hash pre) (store false S.currentOffset)
    match runR C seg (seg.size + 1) { anchor := pre, ip := pre + 1, tbl := tbl0, op := 0 } [] with
    | (none, tbl) => ({ S2 with tbl := tbl }, none)
    | (some (l, st), tbl) =>
      let lastRun := seg.size - st.anchor
      ({ S2 with tbl := tbl },
       if over P (st.op + lastRun + 1 + (lastRun + 255 - 15) / 255) then none
       else some (LZ4V.Spec.Block.serialize (l.map (toSeq seg)) (seg.extract st.anchor seg.size).toList))

/-- a contiguous streaming session on a freshly reset stream: the blocks returned, up to and including the first failure -/
def session (hashOf : Array UInt8 → Bool → Nat → Nat) : SState → List (Array UInt8 × Int × Nat) → List (Option (List UInt8))
  | _, [] => []
  | S, (data, acc, cap) :: rest =>
    match call hashOf S data acc cap with
    | (_, none) => [none]
    | (S', some blk) => some blk :: session hashOf S' rest

end LZ4V.Model.FastS
