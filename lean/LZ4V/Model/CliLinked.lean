import LZ4V.Model.CliFrame
import LZ4V.Model.FrameLinked
/-!
# `lz4 -BD FILE` (linked blocks) at the fast levels: the archive, through the schedule `lz4io.c` + `lz4frame.c` follow

* single-threaded build, input of at least one block (`LZ4IO_compressFilename_extRess_ST`): one `LZ4F_compressUpdate` per `fread` of `blockSize` bytes,
  always from the same source buffer, `autoFlush = 1`, `stableSrc = 0`: every update compresses its chunk from the source buffer and then saves the
  history (`LZ4F_localSaveDict`: `LZ4_saveDict(stream, tmpBuff, 64 KB)`);
* the single-pass path (`LZ4F_compressFrame_usingCDict` with `stableSrc = 1`: multi-threaded build below 4 MiB; any build below one block, where the
  frame is marked independent and `Model/CliFrame.lean` applies): the blocks lie one after the other in the source, nothing is saved.

Addresses: two buffers that do not touch (`srcBuffer`, `tmpBuff`: separate allocations).  The theorems of `FrameLinked` hold for every choice.
-/
namespace LZ4V.Model.CliLinked
open LZ4V.Model LZ4V.Model.FrameFast LZ4V.Model.FrameLinked LZ4V.Model.CliFrame
open LZ4V.Spec.FrameL (Env Bytes)

def srcAddr : Nat := 0x10000000
def tmpAddr : Nat := 0x40000000

/-- the successive `fread`s of `bs` bytes -/
def chunks (bs : Nat) : Nat → Bytes → List Bytes
  | 0, _ => []
  | f+1, s => if s = [] then [] else s.take bs :: chunks bs f (s.drop bs)

/-- `_ST` streaming: every chunk from the source buffer, then the history saved -/
def schedST : List Bytes → List LOp
  | [] => []
  | c :: t => .block srcAddr c.toArray :: .save tmpAddr 65536 :: schedST t

/-- single pass over a stable source: the blocks one after the other -/
def schedOne : Nat → List Bytes → List LOp
  | _, [] => []
  | a, c :: t => .block a c.toArray :: schedOne (a + c.length) t

/-- the archive `lz4 -BD` writes; `none` where this model does not apply -/
def archive (E : Env) (hashOf : Array UInt8 → Bool → Nat → Nat) (mt : Bool) (o : Opts) (src : Bytes) : Option Bytes :=
  let bs := LZ4V.Spec.Frame.blockSizeOf o.bsidReq
  if mt then
    (if src.length < mtChunk then
       let p := prefsSingle o src.length
       let bs1 := LZ4V.Spec.Frame.blockSizeOf p.bsid
       if src.length ≤ bs1 then CliFrame.single E hashOf o src      -- one block: marked independent
       else some (frame E hashOf p (schedOne srcAddr (chunks bs1 (src.length + 1) src)))
     else none)
  else if src.length < bs then CliFrame.single E hashOf o src
  else some (frame E hashOf (prefsStream o src.length) (schedST (chunks bs (src.length + 1) src)))

end LZ4V.Model.CliLinked
