import LZ4V.Spec.Block
import LZ4V.Gen.Consts
import LZ4V.Gen.Funcs
/-!
# Model of the fast block compressor (lib/lz4.c : `LZ4_compress_generic_validated`)

Instance modelled: single memory segment (`noDict`, `noDictIssue`), fresh state (`startIndex = 0`), table type
`byU16`/`byU32`, output directive `notLimited` or `limitedOutput`, any acceleration — what `LZ4_compress_default`,
`LZ4_compress_fast` and `LZ4_compress_fast_extState` run on a 64-bit target.

The model produces the *sequence list* (literals, offset, match length) and the last literals; the bytes are
`Spec.Block.serialize` of it (the tie compares them byte for byte with the real output).  One `step` = the work between two
emitted sequences: search (with the skip schedule), catch-up, match-length count, table refill, test of the next position.
The hash function is a parameter (`Params.hash`: position ↦ table slot): the theorems hold for EVERY hash function and table
size; the executable instance uses the regenerated `LZ4_hash4` / `LZ4_hash5`.
A 32-bit load comparison `LZ4_read32(match) == LZ4_read32(ip)` is modelled as equality of the four bytes.
-/
namespace LZ4V.Model.Fast
open LZ4V.Spec.Block (Seq)

structure Params where
  hash   : Nat → Nat            -- LZ4_hashPosition(source + i, tableType)
  byU16  : Bool
  accel  : Nat                  -- already clamped, ≥ 1
  limit  : Option Nat           -- `limitedOutput` : maxOutputSize

structure St where
  anchor  : Nat
  ip      : Nat
  tbl     : Array Nat
  op      : Nat                 -- output bytes written so far
  pending : Option Nat := none  -- `_next_match` reached from "test next position": match index for a match at `ip` (= `anchor`)
  fin     : Bool := false       -- `ip >= mflimitPlusOne` after a match: only the last literals remain

/-- a sequence by positions: literals `[lit, lit+ll)`, then a match of length `ml` at offset `off` -/
structure PSeq where
  lit : Nat
  ll  : Nat
  off : Nat
  ml  : Nat
deriving Repr

inductive Res
  | seq (s : PSeq) (st : St)
  | last (st : St)
  | fail                        -- `return 0` : does not fit `limitedOutput`

def byteAt (src : Array UInt8) (i : Nat) : UInt8 := src.getD i 0

def eq4 (src : Array UInt8) (i j : Nat) : Bool :=
  byteAt src i == byteAt src j && byteAt src (i+1) == byteAt src (j+1) && byteAt src (i+2) == byteAt src (j+2) && byteAt src (i+3) == byteAt src (j+3)

/-- `LZ4_count(pIn, pMatch, pInLimit)` : number of equal bytes, `pIn` stopping at the limit -/
def count (src : Array UInt8) (limit : Nat) : Nat → Nat → Nat → Nat
  | 0, _, _ => 0
  | fuel+1, a, m => if a < limit ∧ byteAt src a = byteAt src m then 1 + count src limit fuel (a+1) (m+1) else 0

/-- catch up: `while (ip > anchor && match > lowLimit && ip[-1] == match[-1]) { ip--; match--; }` -/
def catchUp (src : Array UInt8) (anchor : Nat) : Nat → Nat → Nat → Nat × Nat
  | 0, ip, m => (ip, m)
  | fuel+1, ip, m => if ip > anchor ∧ m > 0 ∧ byteAt src (ip-1) = byteAt src (m-1) then catchUp src anchor fuel (ip-1) (m-1) else (ip, m)

/-- catch up with an explicit `lowLimit` (`match > lowLimit`): the start of the segment the match lies in -/
def catchUpL (src : Array UInt8) (anchor low : Nat) : Nat → Nat → Nat → Nat × Nat
  | 0, ip, m => (ip, m)
  | fuel+1, ip, m => if ip > anchor ∧ m > low ∧ byteAt src (ip-1) = byteAt src (m-1) then catchUpL src anchor low fuel (ip-1) (m-1) else (ip, m)

/-- the `do … while` search loop; `none` = `goto _last_literals` -/
def search (P : Params) (src : Array UInt8) (mfl1 : Nat) : Nat → Nat → Nat → Nat → Array Nat → Option (Nat × Nat × Array Nat)
  | 0, _, _, _, _ => none
  | fuel+1, fip, step, nb, tbl =>
    let h := P.hash fip
    let mi := tbl.getD h 0
    if fip + step > mfl1 then none else
    let tbl' := tbl.setIfInBounds h fip
    if (!P.byU16 && mi + LZ4V.Gen.LZ4_DISTANCE_MAX < fip) then search P src mfl1 fuel (fip + step) (nb >>> LZ4V.Gen.LZ4_skipTrigger) (nb + 1) tbl'
    else if eq4 src mi fip then some (fip, mi, tbl')
    else search P src mfl1 fuel (fip + step) (nb >>> LZ4V.Gen.LZ4_skipTrigger) (nb + 1) tbl'

def extLen (v : Nat) : Nat := if v ≥ 15 then (v - 15) / 255 + 1 else 0

def over (P : Params) (need : Nat) : Bool := match P.limit with | some cap => need > cap | none => false

/-- `_next_match` … "test next position": encode the match at `ip` against `m`, `op` = position after the literals -/
def emitMatch (P : Params) (src : Array UInt8) (st : St) (ip m op litStart ll : Nat) : Res :=
  let n := src.size
  let mfl1 := n - LZ4V.Gen.MFLIMIT + 1
  let matchlimit := n - LZ4V.Gen.LASTLITERALS
  let op3 := op + 2
  let mc := count src matchlimit n (ip + LZ4V.Gen.MINMATCH) (m + LZ4V.Gen.MINMATCH)
  let ipn := ip + mc + LZ4V.Gen.MINMATCH
  if over P (op3 + (1 + LZ4V.Gen.LASTLITERALS) + (mc + 240) / 255) then .fail else
  let op4 := op3 + extLen mc
  let s : PSeq := ⟨litStart, ll, ip - m, mc + LZ4V.Gen.MINMATCH⟩
  if ipn ≥ mfl1 then .seq s { st with anchor := ipn, ip := ipn, op := op4, pending := none, fin := true } else
  let tbl1 := st.tbl.setIfInBounds (P.hash (ipn - 2)) (ipn - 2)
  let h := P.hash ipn
  let mi := tbl1.getD h 0
  let tbl2 := tbl1.setIfInBounds h ipn
  if (P.byU16 || mi + LZ4V.Gen.LZ4_DISTANCE_MAX ≥ ipn) && eq4 src mi ipn then
    .seq s { anchor := ipn, ip := ipn, tbl := tbl2, op := op4, pending := some mi, fin := false }
  else
    .seq s { anchor := ipn, ip := ipn + 1, tbl := tbl2, op := op4, pending := none, fin := false }

/-- one iteration of the main loop -/
def step (P : Params) (src : Array UInt8) (st : St) : Res :=
  let n := src.size
  let mfl1 := n - LZ4V.Gen.MFLIMIT + 1
  if st.fin then .last st else
  match st.pending with
  | some m => emitMatch P src st st.ip m (st.op + 1) st.ip 0          -- token = op++ ; *token = 0
  | none =>
    match search P src mfl1 (n + 1) st.ip 1 (P.accel <<< LZ4V.Gen.LZ4_skipTrigger) st.tbl with
    | none => .last st
    | some (ip, m, tbl) =>
      let c := catchUp src st.anchor n ip m
      let ll := c.1 - st.anchor
      let op1 := st.op + 1
      if over P (op1 + ll + (2 + 1 + LZ4V.Gen.LASTLITERALS) + ll / 255) then .fail else
      emitMatch P src { st with tbl := tbl } c.1 c.2 (op1 + extLen ll + ll) st.anchor ll

/-- the main loop: sequences in order, the final state, and whether the budget was exceeded -/
def run (P : Params) (src : Array UInt8) : Nat → St → Option (List PSeq × St)
  | 0, st => some ([], st)
  | fuel+1, st =>
    match step P src st with
    | .fail => none
    | .last st' => some ([], st')
    | .seq s st' =>
      match run P src fuel st' with
      | none => none
      | some (l, stf) => some (s :: l, stf)

/-- tail-recursive twin of `run` for execution (same result: `Proofs/FastProof.runTR_eq`); `acc` = sequences so far, newest first -/
def runTR (P : Params) (src : Array UInt8) : Nat → St → List PSeq → Option (List PSeq × St)
  | 0, st, acc => some (acc.reverse, st)
  | fuel+1, st, acc =>
    match step P src st with
    | .fail => none
    | .last st' => some (acc.reverse, st')
    | .seq s st' => runTR P src fuel st' (s :: acc)

/-- `LZ4_compress_generic` for this instance: `none` = returns 0 -/
def compressP (P : Params) (src : Array UInt8) (tableSize : Nat) : Option (List PSeq × Nat) :=
  let n := src.size
  if n > LZ4V.Gen.LZ4_MAX_INPUT_SIZE then none else
  if n < LZ4V.Gen.LZ4_minLength then
    (if over P (n + 1 + (n + 255 - 15) / 255) then none else some ([], 0))
  else
    let tbl0 := (Array.replicate tableSize 0).setIfInBounds (P.hash 0) 0
    match run P src (n + 1) { anchor := 0, ip := 1, tbl := tbl0, op := 0 } with
    | none => none
    | some (l, st) =>
      let lastRun := n - st.anchor
      if over P (st.op + lastRun + 1 + (lastRun + 255 - 15) / 255) then none else some (l, st.anchor)

/-- `compressP` with the tail-recursive loop (for execution; equal to `compressP` by `Proofs/FastProof.compressPTR_eq`) -/
def compressPTR (P : Params) (src : Array UInt8) (tableSize : Nat) : Option (List PSeq × Nat) :=
  let n := src.size
  if n > LZ4V.Gen.LZ4_MAX_INPUT_SIZE then none else
  if n < LZ4V.Gen.LZ4_minLength then
    (if over P (n + 1 + (n + 255 - 15) / 255) then none else some ([], 0))
  else
    let tbl0 := (Array.replicate tableSize 0).setIfInBounds (P.hash 0) 0
    match runTR P src (n + 1) { anchor := 0, ip := 1, tbl := tbl0, op := 0 } [] with
    | none => none
    | some (l, st) =>
      let lastRun := n - st.anchor
      if over P (st.op + lastRun + 1 + (lastRun + 255 - 15) / 255) then none else some (l, st.anchor)

def toSeq (src : Array UInt8) (s : PSeq) : Seq := ⟨(src.extract s.lit (s.lit + s.ll)).toList, s.off, s.ml⟩

/-- the block: serialisation of the sequences and the last literals -/
def compress (P : Params) (src : Array UInt8) (tableSize : Nat) : Option (List UInt8) :=
  match compressP P src tableSize with
  | none => none
  | some (l, anchor) => some (LZ4V.Spec.Block.serialize (l.map (toSeq src)) (src.extract anchor src.size).toList)

/-! ## executable instance: the real hash functions (regenerated from lib/lz4.c) -/

def rdLE (src : Array UInt8) (i k : Nat) : Int :=
  Int.ofNat ((List.range k).foldl (fun acc j => acc + (byteAt src (i + j)).toNat <<< (8 * j)) 0)

/-- `LZ4_hashPosition` on a 64-bit little-endian target -/
def realHash (src : Array UInt8) (byU16 : Bool) (i : Nat) : Nat :=
  if byU16 then (LZ4V.Gen.LZ4_hash4 (rdLE src i 4) LZ4V.Gen.byU16).toNat
  else (LZ4V.Gen.LZ4_hash5 (rdLE src i 8) LZ4V.Gen.byU32).toNat

/-- parameters `LZ4_compress_fast_extState` derives from its arguments on a fresh state -/
def fastParams (src : Array UInt8) (acceleration : Int) (cap bound : Nat) : Params :=
  { hash := realHash src (decide (src.size < LZ4V.Gen.LZ4_64Klimit)), byU16 := decide (src.size < LZ4V.Gen.LZ4_64Klimit),
    accel := if acceleration < 1 then LZ4V.Gen.LZ4_ACCELERATION_DEFAULT else if acceleration > LZ4V.Gen.LZ4_ACCELERATION_MAX then LZ4V.Gen.LZ4_ACCELERATION_MAX else acceleration.toNat,
    limit := if cap ≥ bound then none else some cap }

def fastTableSize (src : Array UInt8) : Nat :=
  if src.size < LZ4V.Gen.LZ4_64Klimit then 2 * LZ4V.Gen.LZ4_HASH_SIZE_U32 else LZ4V.Gen.LZ4_HASH_SIZE_U32

/-- what `LZ4_compress_fast(src, dst, n, cap, acceleration)` returns on a fresh state: the block, or `none` for 0
    (`bound` = `LZ4_compressBound(n)`; executed with the tail-recursive loop) -/
def compressFast (src : Array UInt8) (acceleration : Int) (cap : Nat) (bound : Nat) : Option (List UInt8) :=
  match compressPTR (fastParams src acceleration cap bound) src (fastTableSize src) with
  | none => none
  | some (l, anchor) => some (LZ4V.Spec.Block.serialize (l.map (toSeq src)) (src.extract anchor src.size).toList)

end LZ4V.Model.Fast
