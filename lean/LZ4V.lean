import LZ4V.Spec.Block
import LZ4V.Spec.BlockFast
import LZ4V.Proofs.BlockHub
import LZ4V.Gen.Consts
import LZ4V.Gen.Funcs
import LZ4V.Gen.Guards
import LZ4V.Judge.Rec
import LZ4V.Judge.Block
