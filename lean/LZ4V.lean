import LZ4V.Spec.Block
import LZ4V.Proofs.BlockHub
