import LZ4V
def main : IO Unit := IO.println "lz4vmodel"
