import LZ4V.Judge.Rec
import LZ4V.Judge.Block
import LZ4V.Judge.Decode
import LZ4V.Judge.Frame
import LZ4V.Judge.Stream
import LZ4V.Judge.Cli
import LZ4V.Judge.WR
import LZ4V.Judge.Sparse
import LZ4V.Judge.FastR
import LZ4V.Judge.FrameDS
import LZ4V.Judge.FileR
import LZ4V.Judge.FastS
import LZ4V.Judge.FastX
import LZ4V.Judge.HC
import Std.Data.HashMap
/-!
`lz4vmodel judge <casefile> <faildir>` : walk the case records written by a harness, run the specification / model
on each, print `FAIL case=<id> op=<op> kind=<kind> file=<record> detail=<...>` per disagreement, `TAG <name> <count>`
distribution lines and a final `DONE records=<n> fails=<k>`.  Exit status 0 iff no FAIL.
-/
open LZ4V.Judge

def dispatch (blobs : Std.HashMap Nat ByteArray) (r : Rec) : Verdict :=
  match r.op with
  | 1 => judgeBlock r
  | 2 => judgeDecode blobs r
  | 3 => judgeFrame blobs r
  | 4 => judgeFrameDec blobs r
  | 5 => judgeGenFunc r
  | 6 => judgeStreamBlock r
  | 7 => judgeCliArchive r
  | 8 => judgeCliDecode r
  | 9 => (let x := judgeWR r; { fails := x.1, tags := x.2 })
  | 10 => (let x := judgeSparse r; { fails := x.1, tags := x.2 })
  | 11 => (let x := judgeFastResetHistory r; { fails := x.1, tags := x.2 })
  | 12 => (let x := judgeFrameTrace blobs r; { fails := x.1, tags := x.2 })
  | 14 => (let x := judgeReadSession r; { fails := x.1, tags := x.2 })
  | 15 => (let x := judgeContigStream r; { fails := x.1, tags := x.2 })
  | 16 => (let x := judgePlacedStream r; { fails := x.1, tags := x.2 })
  | 18 => (let x := judgeHC r; { fails := x.1, tags := x.2 })
  | 19 => (let x := judgeHCstream r; { fails := x.1, tags := x.2 })
  | 100 => {}
  | _ => { fails := [("unknown_op", s!"op={r.op}")] }

def bump (m : Std.HashMap String Nat) (k : String) : Std.HashMap String Nat := m.insert k (m.getD k 0 + 1)

def judgeFile (path faildir : String) : IO UInt32 := do
  let b ← IO.FS.readBinFile path
  let mut pos := 0
  let mut n := 0
  let mut nf := 0
  let mut tags : Std.HashMap String Nat := {}
  let mut sigs : Std.HashMap String Nat := {}
  let mut going := true
  let mut blobs : Std.HashMap Nat ByteArray := {}
  while going do
    match readRec b pos with
    | none => going := false
    | some r =>
      n := n + 1
      pos := r.stop
      if r.op == 100 then blobs := blobs.insert (r.nat 0) (r.bytes 1)
      let v := dispatch blobs r
      if n % 997 == 3 && n < 6000 then
        let descr := r.args.toList.map (fun a => if a.size == 8 then s!"int {argInt a}" else s!"bytes({a.size})={hex a 24}")
        IO.println s!"SAMPLE op={r.op} case={r.id} tags={v.tags} args={descr}"
      for t in v.tags do tags := bump tags t
      sigs := bump sigs (toString r.op ++ ":" ++ String.intercalate "," v.tags)
      for (kind, detail) in v.fails do
        nf := nf + 1
        let f := s!"{faildir}/case{r.id}.bin"
        if nf ≤ 20 then IO.FS.writeBinFile f (b.extract r.start r.stop)
        IO.println s!"FAIL case={r.id} op={r.op} kind={kind} file={f} detail={detail}"
  if pos != b.size then
    IO.println s!"FAIL case=0 op=0 kind=malformed_case_file file={path} detail=stopped at byte {pos} of {b.size}"
    nf := nf + 1
  for (k, c) in tags.toList do IO.println s!"TAG {k} {c}"
  if (← IO.getEnv "LZ4V_SIGS").isSome then
    for (k, _) in sigs.toList do IO.println s!"SIG {k}"
  IO.println s!"DISTINCT {sigs.size}"
  IO.println s!"DONE records={n} fails={nf}"
  return (if nf == 0 then 0 else 1)

def main (args : List String) : IO UInt32 := do
  match args with
  | ["judge", path, faildir] => judgeFile path faildir
  | _ => IO.eprintln "usage: lz4vmodel judge <casefile> <faildir>"; return 2
