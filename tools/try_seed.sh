#!/bin/bash
# try_seed.sh <patch> <Cxx> [seed] : apply a seeded change to /repo, run the check, undo it straight afterwards
patch=$1; prop=$2; seed=${3:-1}
cd /repo && git apply "$patch" || { echo "patch does not apply"; exit 2; }
cd /verif && VERIF_SEED=$seed ./check $prop 2>&1 | grep -E "^C[0-9]+ tier|VIOLATION|KNOWN-FINDING|NOTE" | cut -c1-260
git -C /repo checkout -- . ; git -C /repo status --short | head -3
