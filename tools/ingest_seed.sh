#!/bin/bash
# ingest_seed.sh <worktree> <seed-name> : copy patch/demo/notes into /verif/seeded/<name>, confirm (demo with/without, test suite), remove the worktree
wt=$1; name=$2; d=/verif/seeded/$name
mkdir -p $d/demo
cp $wt/mutation.diff $d/patch.diff
(cd $wt/demo && find . -maxdepth 1 -type f \( -name "*.c" -o -name "*.sh" -o -name "*.py" -o -name "*.h" -o -name "*.txt" \) -size -200k -exec cp {} $d/demo/ \;)
cp $wt/NOTES.md $d/ 2>/dev/null
/verif/tools/confirm_seed.sh $wt $d/confirm.json --suite > /dev/null 2>&1
git -C /repo worktree remove --force $wt
echo "ingested $name: $(cut -c1-120 $d/confirm.json)"
