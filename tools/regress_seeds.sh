#!/bin/bash
# regress_seeds.sh : every seeded change is applied to the repository the checks run against (VERIF_REPO, default /repo), the check of the property it breaks
# is run, and the change is undone straight afterwards.  Prints one line per seed: CAUGHT / MISSED.  Meant for a scratch copy (vp run --with-repo).
cd "$(dirname "$0")/.."
repo=${VERIF_REPO:-/repo}
for d in seeded/*/; do
  name=$(basename $d); prop=$(python3 -c "import json;print(json.load(open('$d/meta.json'))['property_broken'])" 2>/dev/null)
  [ -f $d/patch.diff ] && [ -n "$prop" ] || { echo "SKIP $name"; continue; }
  git -C $repo apply $(pwd)/$d/patch.diff 2>/dev/null || { echo "NOAPPLY $name"; git -C $repo checkout -- . ; continue; }
  out=$(VERIF_SEED=${1:-1} ./check $prop 2>&1 | grep -E "VIOLATION" | head -1)
  git -C $repo checkout -- .
  if [ -n "$out" ]; then echo "CAUGHT $name $prop $(echo $out | grep -o 'no-failing-input-found')"; else echo "MISSED $name $prop"; fi
done
