#!/bin/bash
# confirm a seeded change in its scratch worktree: demo fails with it, passes without it, test suite passes with it
# usage: confirm_seed.sh <worktree> <out.json> [--suite]
wt=$1; out=$2; suite=$3
cd "$wt" || exit 2
git diff -- lib programs > /tmp/confirm_$$.diff
[ -s /tmp/confirm_$$.diff ] || cp mutation.diff /tmp/confirm_$$.diff
git checkout -q -- lib programs
git apply /tmp/confirm_$$.diff || exit 2
( bash demo/run.sh > /tmp/confirm_$$.with 2>&1 ); rc_with=$?
git checkout -q -- lib programs
( bash demo/run.sh > /tmp/confirm_$$.without 2>&1 ); rc_without=$?
git apply /tmp/confirm_$$.diff
suite_rc=null
if [ "$suite" = "--suite" ]; then
  make -C "$wt" -j4 -k test > "$wt/test_confirm.log" 2>&1; suite_rc=$?
  make -C "$wt" clean > /dev/null 2>&1
fi
printf '{"demo_exit_with_change": %d, "demo_exit_without_change": %d, "suite_exit_with_change": %s, "demo_tail_with_change": %s}\n' $rc_with $rc_without $suite_rc "$(tail -3 /tmp/confirm_$$.with | python3 -c 'import sys,json; print(json.dumps(sys.stdin.read()[-400:]))')" > "$out"
rm -f /tmp/confirm_$$.*
cat "$out"
