#!/bin/bash
# run every claimed check; usage: runall.sh <seed> [tier]   (works from any checkout: uses the directory it lives in)
seed=${1:-1}; tier=${2:-quick}
cd "$(dirname "$0")/.."
for p in C01 C02 C03 C04 C05 C06 C07 C08 C09 C10 C11 C12 C13 C14 C15 C16 C17 C18 C19 C20; do
  VERIF_SEED=$seed ./check $p --tier $tier 2>&1 | grep -E "^C[0-9]+ tier|VIOLATION|KNOWN-FINDING" | cut -c1-160
done
