#!/bin/bash
# confirm every seeded change that has no confirm.json yet, 4 at a time, each in its own scratch worktree /tmp/wt_<Cxx>
cd /verif/seeded
confirm_one() {
  name=$1; id=${name%%-*}; wt=/tmp/wt_$id
  [ -d $wt ] && wt=/tmp/wt_${id}b
  git -C /repo worktree add --detach $wt HEAD -q || return
  cp -r /verif/seeded/$name/demo $wt/demo
  git -C $wt apply /verif/seeded/$name/patch.diff || { echo "{\"error\": \"patch does not apply\"}" > /verif/seeded/$name/confirm.json; git -C /repo worktree remove --force $wt; return; }
  /verif/tools/confirm_seed.sh $wt /verif/seeded/$name/confirm.json --suite > /dev/null 2>&1
  git -C /repo worktree remove --force $wt
}
export -f confirm_one
ls -d */ | tr -d / | while read n; do [ -f $n/confirm.json ] || echo $n; done | xargs -P 4 -I{} bash -c 'confirm_one {}'
echo ALLDONE
