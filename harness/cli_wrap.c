/* Fault shim linked into the lz4 CLI with -Wl,--wrap=...: makes the k-th call of one stdio function fail or come back short.
 * VERIF_FAULT="<fn>:<k>[:<mode>]"   fn in fread fwrite fopen fclose fflush fseek remove;  k = 1-based call index counted only for
 * streams that are not stdin/stdout/stderr metadata (all FILE* calls are counted; lz4 itself makes no other stdio calls on data).
 * mode: "err" (default: return failure, set errno=EIO, set the stream error flag where applicable) | "short" (fread/fwrite transfer half)
 * The number of times the fault fired is appended to the file named by VERIF_FAULT_LOG. */
#define _GNU_SOURCE
#include <stdio.h>
#include <stdlib.h>
#include <string.h>
#include <errno.h>

static int inited = 0; static char fn[16]; static long target = -1; static int shortMode = 0; static long counts[8]; static int fired = 0;
static const char* const names[] = {"fread", "fwrite", "fopen", "fclose", "fflush", "fseek", "remove"};

static void init(void)
{
    const char* s; inited = 1;
    s = getenv("VERIF_FAULT");
    if (s) { char buf[64]; char* p; char* q; strncpy(buf, s, 63); buf[63] = 0; p = strchr(buf, ':'); if (p) { *p++ = 0; strncpy(fn, buf, 15); target = strtol(p, &q, 10); if (*q == ':' && !strcmp(q + 1, "short")) shortMode = 1; } }
}
static int hit(int which)
{
    if (!inited) init();
    counts[which]++;
    if (target > 0 && !strcmp(fn, names[which]) && counts[which] == target) {
        const char* lg = getenv("VERIF_FAULT_LOG"); fired++;
        if (lg) { FILE* f; extern FILE* __real_fopen(const char*, const char*); extern int __real_fclose(FILE*); f = __real_fopen(lg, "a"); if (f) { fprintf(f, "%s:%ld fired\n", fn, target); __real_fclose(f); } }
        return 1;
    }
    return 0;
}

/* glibc: set the error indicator of a stream */
static void set_err(FILE* f) { if (f) f->_flags |= 0x20; /* _IO_ERR_SEEN */ }

size_t __real_fread(void*, size_t, size_t, FILE*);
size_t __wrap_fread(void* p, size_t sz, size_t n, FILE* f)
{
    if (hit(0)) { if (shortMode) return __real_fread(p, sz, n / 2, f); errno = EIO; set_err(f); return 0; }
    return __real_fread(p, sz, n, f);
}
size_t __real_fwrite(const void*, size_t, size_t, FILE*);
size_t __wrap_fwrite(const void* p, size_t sz, size_t n, FILE* f)
{
    if (hit(1)) { if (shortMode) { size_t r = __real_fwrite(p, sz, n / 2, f); errno = ENOSPC; set_err(f); return r; } errno = ENOSPC; set_err(f); return 0; }
    return __real_fwrite(p, sz, n, f);
}
FILE* __real_fopen(const char*, const char*);
FILE* __wrap_fopen(const char* path, const char* mode) { if (hit(2)) { errno = EACCES; return NULL; } return __real_fopen(path, mode); }
int __real_fclose(FILE*);
int __wrap_fclose(FILE* f) { if (hit(3)) { __real_fclose(f); errno = EIO; return EOF; } return __real_fclose(f); }
int __real_fflush(FILE*);
int __wrap_fflush(FILE* f) { if (hit(4)) { errno = EIO; set_err(f); return EOF; } return __real_fflush(f); }
int __real_fseek(FILE*, long, int);
int __wrap_fseek(FILE* f, long o, int w) { if (hit(5)) { errno = ESPIPE; return -1; } return __real_fseek(f, o, w); }
int __real_remove(const char*);
int __wrap_remove(const char* p) { if (hit(6)) { errno = EPERM; return -1; } return __real_remove(p); }
