/* force-included (-include vs_sched.h) when compiling the lz4 programs: routes every pthread synchronisation call of
 * programs/threadpool.c through the deterministic scheduler of harness/sched.c.  No source change in /repo. */
#ifndef VS_SCHED_H
#define VS_SCHED_H
#include <pthread.h>
int vs_create(pthread_t*, const pthread_attr_t*, void*(*)(void*), void*);
int vs_join(pthread_t, void**);
int vs_mutex_init(pthread_mutex_t*, const pthread_mutexattr_t*);
int vs_mutex_destroy(pthread_mutex_t*);
int vs_mutex_lock(pthread_mutex_t*);
int vs_mutex_unlock(pthread_mutex_t*);
int vs_cond_init(pthread_cond_t*, const pthread_condattr_t*);
int vs_cond_destroy(pthread_cond_t*);
int vs_cond_wait_at(pthread_cond_t*, pthread_mutex_t*, const char* func);
int vs_cond_signal(pthread_cond_t*);
int vs_cond_broadcast(pthread_cond_t*);
#ifndef VS_SCHED_IMPL
#define pthread_create vs_create
#define pthread_join vs_join
#define pthread_mutex_init vs_mutex_init
#define pthread_mutex_destroy vs_mutex_destroy
#define pthread_mutex_lock vs_mutex_lock
#define pthread_mutex_unlock vs_mutex_unlock
#define pthread_cond_init vs_cond_init
#define pthread_cond_destroy vs_cond_destroy
#define pthread_cond_wait(c, m) vs_cond_wait_at(c, m, __func__)
#define pthread_cond_signal vs_cond_signal
#define pthread_cond_broadcast vs_cond_broadcast
#endif
#endif
