#ifndef LIFE_PART2
/* the two calls by which lz4frame.c drives the LZ4 stream of a linked-blocks frame at the fast levels are interposed (no change to the library): the
 * schedule (which bytes are compressed from which address, when the history is moved where) is logged for the model of Model/FrameLinked.lean */
static int vf_compress_fast_continue(LZ4_stream_t* s, const char* src, char* dst, int n, int cap, int acc);
static int vf_saveDict(LZ4_stream_t* s, char* safe, int k);
static int vf_fastReset(void* state, const char* src, char* dst, int n, int cap, int acc);
static void vf_attach(LZ4_stream_t* w, const LZ4_stream_t* d);
static int vf_loadDict(LZ4_stream_t* s, const char* dict, int n);
#define LZ4_attach_dictionary vf_attach
#define LZ4_loadDict vf_loadDict
#define LZ4_compress_fast_continue vf_compress_fast_continue
#define LZ4_saveDict vf_saveDict
#define LZ4_compress_fast_extState_fastReset vf_fastReset
#else
#undef LZ4_compress_fast_continue
#undef LZ4_saveDict
#undef LZ4_compress_fast_extState_fastReset
#undef LZ4_attach_dictionary
#undef LZ4_loadDict
static int g_life_on = 0; static unsigned char* g_life = NULL; static size_t g_life_n = 0, g_life_cap = 0; static unsigned long long g_life_blocks = 0, g_life_saves = 0;
static void life_put(const void* d, size_t n) { if (g_life_n + n > g_life_cap) { g_life_cap = (g_life_n + n) * 2 + 256; g_life = (unsigned char*)realloc(g_life, g_life_cap); } if (n) memcpy(g_life + g_life_n, d, n); g_life_n += n; }
static unsigned char g_life_init[32 + 4 * LZ4_HASH_SIZE_U32]; static size_t g_life_init_n = 0;
static int vf_compress_fast_continue(LZ4_stream_t* s, const char* src, char* dst, int n, int cap, int acc)
{
    int r;
    if (g_life_on && g_life_n == 0 && g_life_init_n == 0) {     /* first call of the frame: the state the LZ4 stream of the compression context is in (fresh, or what LZ4_resetStream_fast made of earlier frames) */
        const LZ4_stream_t_internal* in = &s->internal_donotuse; unsigned int v; unsigned long long a = (unsigned long long)(size_t)in->dictionary; int i; unsigned char* q = g_life_init;
        v = in->currentOffset; memcpy(q, &v, 4); v = in->dictSize; memcpy(q + 4, &v, 4); memcpy(q + 8, &a, 8); v = in->tableType; memcpy(q + 16, &v, 4); v = in->dictCtx != NULL; memcpy(q + 20, &v, 4);
        for (i = 0; i < LZ4_HASH_SIZE_U32; i++) { v = in->hashTable[i]; memcpy(q + 24 + 4 * i, &v, 4); }
        g_life_init_n = 24 + 4 * LZ4_HASH_SIZE_U32; }
    if (g_life_on) { unsigned char k = 0; unsigned long long a = (unsigned long long)(size_t)src; unsigned int un = (unsigned int)n; life_put(&k, 1); life_put(&a, 8); life_put(&un, 4); life_put(&cap, 4); life_put(&acc, 4); life_put(src, (size_t)n); g_life_blocks++; }
    r = LZ4_compress_fast_continue(s, src, dst, n, cap, acc);
    if (g_life_on) life_put(&r, 4);
    return r;
}
static int vf_saveDict(LZ4_stream_t* s, char* safe, int k)
{
    int r = LZ4_saveDict(s, safe, k);
    if (g_life_on) { unsigned char kk = 1; unsigned long long a = (unsigned long long)(size_t)safe; life_put(&kk, 1); life_put(&a, 8); life_put(&k, 4); life_put(&r, 4); g_life_saves++; }
    return r;
}
/* dictionaries: a prepared dictionary stream attached (CDict: LZ4_resetStream_fast was called just before), a raw dictionary loaded into the working stream */
static unsigned long long g_life_attach = 0, g_life_load = 0;
static void vf_attach(LZ4_stream_t* w, const LZ4_stream_t* d)
{
    if (g_life_on && d) { const LZ4_stream_t_internal* in = &d->internal_donotuse; unsigned char k = 2; unsigned long long a = (unsigned long long)(size_t)in->dictionary; unsigned int n = in->dictSize;
        if (g_life_n == 0 && g_life_init_n == 0) { /* state of the working stream when the frame starts */ const LZ4_stream_t_internal* wi = &w->internal_donotuse; unsigned int v; unsigned long long wa = (unsigned long long)(size_t)wi->dictionary; int i; unsigned char* q = g_life_init;
            v = wi->currentOffset; memcpy(q, &v, 4); v = wi->dictSize; memcpy(q + 4, &v, 4); memcpy(q + 8, &wa, 8); v = wi->tableType; memcpy(q + 16, &v, 4); v = wi->dictCtx != NULL; memcpy(q + 20, &v, 4);
            for (i = 0; i < LZ4_HASH_SIZE_U32; i++) { v = wi->hashTable[i]; memcpy(q + 24 + 4 * i, &v, 4); }
            g_life_init_n = 24 + 4 * LZ4_HASH_SIZE_U32; }
        life_put(&k, 1); life_put(&a, 8); life_put(&n, 4); life_put(in->dictionary, n); g_life_attach++; }
    LZ4_attach_dictionary(w, d);
}
static int vf_loadDict(LZ4_stream_t* s, const char* dict, int n)
{
    int r = LZ4_loadDict(s, dict, n);
    if (g_life_on) { unsigned char k = 3; unsigned long long a = (unsigned long long)(size_t)dict; unsigned int un = (unsigned int)n; life_put(&k, 1); life_put(&a, 8); life_put(&un, 4); life_put(dict, (size_t)n); life_put(&r, 4); g_life_load++; }
    return r;
}
/* independent-blocks frames: only the state of the context's LZ4 stream at the first block is needed (the blocks themselves follow from the call pattern) */
static int g_indep_on = 0; static unsigned char g_indep_init[32 + 4 * LZ4_HASH_SIZE_U32]; static size_t g_indep_init_n = 0;
static int vf_fastReset(void* state, const char* src, char* dst, int n, int cap, int acc)
{
    if (g_indep_on && g_indep_init_n == 0) {
        const LZ4_stream_t_internal* in = &((LZ4_stream_t*)state)->internal_donotuse; unsigned int v; unsigned char* q = g_indep_init;
        v = in->currentOffset; memcpy(q, &v, 4); v = in->tableType; memcpy(q + 4, &v, 4); memcpy(q + 8, in->hashTable, 4 * LZ4_HASH_SIZE_U32);
        g_indep_init_n = 8 + 4 * LZ4_HASH_SIZE_U32; }
    return LZ4_compress_fast_extState_fastReset(state, src, dst, n, cap, acc);
}
#endif
