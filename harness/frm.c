/* Frame-level harness: the REAL lz4frame.c (included) under ASan/UBSan.  Every destination buffer handed to an LZ4F call is
 * an exact-size heap block of the documented capacity, volatile sources are freed after the call, contexts are reused.
 * usage: frm <mode> <tier> <seed> <casefile> <crashfile>     modes: c03 c07 c08 c10 c19
 */
#define LZ4F_STATIC_LINKING_ONLY
#define LZ4_STATIC_LINKING_ONLY
#define LZ4_HC_STATIC_LINKING_ONLY
#define XXH_NAMESPACE LZ4_
#include "lz4.c"
#include "lz4hc.c"
#include "xxhash.c"
#include "life.h"
#include "lz4frame.c"
#define LIFE_PART2
#include "life.h"
#include "gen.h"

enum { OP_FRAME = 3, OP_FRAMEDEC = 4, OP_GENFUNC = 5, OP_FRAMETRACE = 12 };
enum { K_STREAM = 0, K_COMPRESSFRAME = 1, K_COMPRESSFRAME_CDICT = 2 };
enum { DK_NONE = 0, DK_DICT = 1, DK_CDICT = 2 };

static u64 n_linked_dict; static u64 n_linked_model_frames, n_linked_reused, n_indep_reused, n_oneshot_linked; static u64 n_reused_differs, n_dict_derived, n_forged_size, n_headers, n_model_frames; static u64 n_calls, n_frames, n_decodes, n_switch, n_flush, n_uncomp, n_volatile, n_dec_ok, n_dec_err, n_dec_incomplete;
static u8* g_dictbuf;   /* 70000 bytes, blob 1 */
static u8 g_ops[1 << 16]; static size_t g_nops;   /* call history of the current streaming session: 'U'/'u' + u32 size, 'F' */
static void op_rec(int code, size_t n) { if (g_nops + 5 <= sizeof g_ops) { g_ops[g_nops++] = (u8)code; if (code != 'F') { u32 v = (u32)n; memcpy(g_ops + g_nops, &v, 4); g_nops += 4; } } else g_nops = sizeof g_ops + 1; }

/* ---------- growable byte vector ---------- */
typedef struct { u8* p; size_t n, cap; } vec_t;
static void vec_put(vec_t* v, const void* d, size_t n) { if (v->n + n > v->cap) { v->cap = (v->n + n) * 2 + 64; v->p = (u8*)realloc(v->p, v->cap); } if (n) memcpy(v->p + v->n, d, n); v->n += n; }

static LZ4F_preferences_t rand_prefs(size_t n)
{
    LZ4F_preferences_t p; static const int levels[] = {0,0,1,-1,-3,2,3,4,9,10,12,-100,5}; memset(&p, 0, sizeof p);
    p.frameInfo.blockSizeID = (LZ4F_blockSizeID_t)(rndp(30) ? 0 : 4 + rndn(n > 200000 ? 4 : 2));
    p.frameInfo.blockMode = (LZ4F_blockMode_t)rndn(2);
    p.frameInfo.contentChecksumFlag = (LZ4F_contentChecksum_t)rndn(2);
    p.frameInfo.blockChecksumFlag = (LZ4F_blockChecksum_t)rndn(2);
    p.frameInfo.contentSize = rndp(40) ? n : 0;
    p.frameInfo.dictID = rndp(20) ? (unsigned)rnd() : 0;
    p.compressionLevel = levels[rndn(13)];
    p.autoFlush = rndp(35);
    p.favorDecSpeed = rndp(20);
    return p;
}

/* one LZ4F compression call into an exact-size destination of capacity `cap`; appends the output to `out`; returns result */
typedef size_t (*call_fn)(void* dst, size_t cap, void* ctx);
static int g_expect_ok = 1;

/* streaming compression with a random call pattern.  returns 0 on success */
static int g_no_uncompressed = 0;
static int make_frame_stream(LZ4F_cctx* cctx, const LZ4F_preferences_t* prefs, const u8* in, size_t n, int dictKind, size_t dictSize, LZ4F_CDict* cdict, vec_t* out, int capMode)
{
    size_t pos = 0; size_t bs = LZ4F_getBlockSize(prefs->frameInfo.blockSizeID); size_t r; u8* dst; size_t cap; int lastUncompressed = 0;
    const u8* dict = g_dictbuf + (70000 - dictSize);
    g_nops = 0;
    cap = LZ4F_HEADER_SIZE_MAX; dst = xalloc(cap);
    if (dictKind == DK_DICT) r = LZ4F_compressBegin_usingDict(cctx, dst, cap, dict, dictSize, prefs);
    else if (dictKind == DK_CDICT) r = LZ4F_compressBegin_usingCDict(cctx, dst, cap, cdict, prefs);
    else r = LZ4F_compressBegin(cctx, dst, cap, prefs);
    n_calls++;
    if (LZ4F_isError(r)) { free(dst); return 1; }
    vec_put(out, dst, r); free(dst);
    while (pos < n || rndp(10)) {
        int act = (int)rndn(100); size_t chunk;
        static const size_t deltas[] = {0, 1, 2, 7, 100, 4096};
        switch (rndn(7)) { case 0: chunk = 0; break; case 1: chunk = 1 + rndn(5); break; case 2: chunk = bs - deltas[rndn(6)] % bs; break; case 3: chunk = bs + deltas[rndn(6)]; break;
                           case 4: chunk = rndn((u32)(2 * bs + 3)); break; case 5: chunk = 65536 + rndn(3) - 1; break; default: chunk = rndn(3000); }
        if (chunk > n - pos) chunk = n - pos;
        if (act < 12) {   /* flush */
            cap = LZ4F_compressBound(0, prefs); if (capMode == 1) cap += rndn(9);
            dst = xalloc(cap); r = LZ4F_flush(cctx, dst, cap, NULL); n_calls++; n_flush++; op_rec('F', 0);
            if (LZ4F_isError(r)) { free(dst); return 2; }
            vec_put(out, dst, r); free(dst);
            if (pos >= n) break;
            continue;
        }
        {   LZ4F_compressOptions_t opt; int volatileSrc = rndp(50); u8* tmp = NULL; const u8* src = in + pos; int uncompressed = (prefs->frameInfo.blockMode == LZ4F_blockIndependent) && act < 30 && !g_no_uncompressed;
            memset(&opt, 0, sizeof opt); opt.stableSrc = !volatileSrc;
            if (volatileSrc) { tmp = xalloc(chunk); memcpy(tmp, src, chunk); src = tmp; n_volatile++; }
            cap = LZ4F_compressBound(chunk, prefs); if (capMode == 1) cap += rndn(9);
            if (uncompressed != lastUncompressed) { cap += bs + 8; n_switch++; }   /* a switch flushes buffered data first: leave room for that block */
            lastUncompressed = uncompressed;
            dst = xalloc(cap);
            if (uncompressed) { r = LZ4F_uncompressedUpdate(cctx, dst, cap, src, chunk, &opt); n_uncomp++; }
            else r = LZ4F_compressUpdate(cctx, dst, cap, src, chunk, rndp(20) ? NULL : &opt);
            n_calls++; op_rec(uncompressed ? 'u' : 'U', chunk);
            if (tmp) { memset(tmp, 0xDD, chunk); free(tmp); }
            if (LZ4F_isError(r)) { free(dst); return 3; }
            vec_put(out, dst, r); free(dst); pos += chunk;
        }
        if (pos >= n && rndp(70)) break;
    }
    cap = LZ4F_compressBound(0, prefs); dst = xalloc(cap);
    r = LZ4F_compressEnd(cctx, dst, cap, NULL); n_calls++;
    if (LZ4F_isError(r)) { free(dst); return 4; }
    vec_put(out, dst, r); free(dst);
    return 0;
}

/* ---------- decoding with a chunking policy ---------- */
typedef struct { int verdict; /* 0 complete, 1 error, 2 incomplete */ size_t consumed; vec_t out; size_t errcode; int noprogress; } decres_t;

/* decompression contexts are created with a logging allocator: the sizes of the two internal buffers (tmpIn, tmpOutBuffer; always allocated
   as a pair, in this order, by dstage_init) are part of the call trace and are compared with the model's allocation decisions */
typedef struct { size_t sz[2]; int phase; LZ4F_dctx* owner; } dalloc_t;
static dalloc_t g_da[4];
static void* d_alloc(void* o, size_t sz) { dalloc_t* a = (dalloc_t*)o; a->sz[a->phase & 1] = sz; a->phase++; return malloc(sz); }
static void* d_calloc(void* o, size_t sz) { (void)o; return calloc(1, sz); }
static void d_free(void* o, void* p) { (void)o; free(p); }
static LZ4F_dctx* new_dctx(int slot)
{ LZ4F_CustomMem m; dalloc_t* a = &g_da[slot]; memset(a, 0, sizeof *a); m.customAlloc = d_alloc; m.customCalloc = d_calloc; m.customFree = d_free; m.opaqueState = a;
  a->owner = LZ4F_createDecompressionContext_advanced(m, LZ4F_VERSION); return a->owner; }
static dalloc_t* da_of(const LZ4F_dctx* d) { int i; for (i = 0; i < 4; i++) if (g_da[i].owner == d) return &g_da[i]; return NULL; }

/* call trace of one decode_frame session, replayed call by call on the dStage model (Model/FrameDS.lean) by the judge:
   per call 7 x u64 : input offered, output capacity, input consumed, output produced, return value, size of the tmpIn and tmpOutBuffer allocations */
static vec_t g_trace; static u64 g_tracectr, g_tracectr2, n_traces, n_trace_calls; static int g_trace_fresh = 0, g_thorough = 0;
static long long g_trace_budget = 150ll << 20;   /* bytes of trace records per run (thorough: 600 MB): keeps the case file and the judge time bounded */
static void trace_call(size_t a, size_t b, size_t c, size_t d, size_t r, const dalloc_t* da) { u64 v[7]; v[0] = a; v[1] = b; v[2] = c; v[3] = d; v[4] = r; v[5] = da ? da->sz[0] : 0; v[6] = da ? da->sz[1] : 0; vec_put(&g_trace, v, sizeof v); }

static decres_t decode_frame(LZ4F_dctx* dctx, const u8* frame, size_t n, int policy, int skipChecksums, const u8* dict, size_t dictSize, u64 pseed)
{
    decres_t d; size_t ip = 0; LZ4F_decompressOptions_t opt; u64 save = g_rs; int idle = 0; size_t hint = 1;
    int tracing = g_trace_fresh && g_trace_budget > 0 && (n <= 20000 ? (g_thorough || n > 64 || policy != 1 || (++g_tracectr2 % 3) == 0) : (n <= 300000 && policy != 4 && (++g_tracectr % 4) == 0));      /* policy 4 on a long input: thousands of calls that are each offered everything (quadratic for the list model) */
    memset(&d, 0, sizeof d); memset(&opt, 0, sizeof opt); opt.skipChecksums = (unsigned)skipChecksums;
    dalloc_t* da = da_of(dctx); size_t in0 = da ? da->sz[0] : 0, out0 = da ? da->sz[1] : 0;
    g_trace.n = 0;
    g_rs = pseed; d.verdict = 2;
    for (;;) {
        size_t inAvail, outCap, inUse, outUse, r; u8* src; u8* dst;
        switch (policy) {
        case 0: inAvail = n - ip; outCap = 1 << 20; break;
        case 1: inAvail = (n - ip) ? 1 : 0; outCap = 1; break;
        case 2: inAvail = rndn(60); outCap = rndn(300); break;
        case 3: inAvail = hint ? hint : 1; outCap = 65536; break;             /* exactly what the decoder asked for */
        case 4: inAvail = n - ip; outCap = 7; break;
        default: inAvail = rndp(20) ? 0 : 1 + rndn(100000); outCap = rndp(20) ? 0 : 1 + rndn(70000); break;
        }
        if (inAvail > n - ip) inAvail = n - ip;
        src = xalloc(inAvail); memcpy(src, frame + ip, inAvail); dst = xalloc(outCap);
        inUse = inAvail; outUse = outCap;
        r = dictSize ? LZ4F_decompress_usingDict(dctx, dst, &outUse, src, &inUse, dict, dictSize, &opt) : LZ4F_decompress(dctx, dst, &outUse, src, &inUse, &opt);
        n_calls++;
        if (tracing && g_trace.n < 56 * 30000) trace_call(inAvail, outCap, inUse, outUse, r, da); else tracing = 0;
        if (inUse > inAvail || outUse > outCap) { d.verdict = 1; d.errcode = 999; free(src); free(dst); break; }
        vec_put(&d.out, dst, outUse); ip += inUse; free(src); free(dst);
        if (LZ4F_isError(r)) { d.verdict = 1; d.errcode = r; break; }
        if (r == 0) { d.verdict = 0; break; }
        hint = r;
        if (inUse == 0 && outUse == 0) {
            if (inAvail > 0 && outCap > 0) { d.noprogress = 1; d.verdict = 1; d.errcode = 998; break; }     /* had input and room, did nothing */
            if (ip >= n && outCap > 0) { d.verdict = 2; break; }                                            /* starved: input exhausted */
            if (++idle > 200) { if (ip >= n) { d.verdict = 2; break; } }
            if (idle > 100000) { d.noprogress = 1; d.verdict = 1; d.errcode = 997; break; }
        } else idle = 0;
        if (d.out.n > (1u << 28)) { d.verdict = 1; d.errcode = 996; break; }
    }
    d.consumed = ip; g_rs = save;
    if (tracing && g_trace.n) {
        rec_t t; rec_begin(&t, OP_FRAMETRACE); rec_int(&t, skipChecksums); rec_int(&t, (long long)dictSize); rec_bytes(&t, frame, n); rec_bytes(&t, g_trace.p, g_trace.n);
        rec_bytes(&t, d.out.p, d.out.n); rec_int(&t, d.verdict); rec_int(&t, policy); rec_int(&t, da ? 1 : 0); rec_int(&t, (long long)in0); rec_int(&t, (long long)out0); rec_write(&t); n_traces++; g_trace_budget -= (long long)(n + g_trace.n + d.out.n + 128); n_trace_calls += g_trace.n / 56;
    }
    return d;
}

static void rec_prefs(rec_t* r, const LZ4F_preferences_t* p)
{
    rec_int(r, p->frameInfo.blockSizeID); rec_int(r, p->frameInfo.blockMode); rec_int(r, p->frameInfo.contentChecksumFlag); rec_int(r, p->frameInfo.blockChecksumFlag);
    rec_int(r, (long long)p->frameInfo.contentSize); rec_int(r, p->frameInfo.dictID); rec_int(r, p->compressionLevel); rec_int(r, p->autoFlush); rec_int(r, p->favorDecSpeed);
}

/* produce one frame, check it with the real decoder under several chunkings, write the record */
static void frame_case(LZ4F_cctx* cctx, LZ4F_dctx* dctx, const u8* in, size_t n, int kind, int thorough)
{
    u8* din = NULL; LZ4F_preferences_t prefs = rand_prefs(n); vec_t out; rec_t r; int rc = 0; int useNull = 0; int dictKind = rndp(25) ? (rndp(50) ? DK_DICT : DK_CDICT) : DK_NONE;
    static const size_t dsz[] = {1, 7, 300, 4000, 65535, 65536, 70000}; size_t dictSize = dictKind ? dsz[rndn(7)] : 0; LZ4F_CDict* cdict = NULL; int p;
    memset(&out, 0, sizeof out);
    if (kind == K_COMPRESSFRAME && dictKind) dictKind = DK_NONE, dictSize = 0;
    if (kind == K_COMPRESSFRAME_CDICT) { dictKind = rndp(70) ? DK_CDICT : DK_NONE; if (dictKind && !dictSize) dictSize = dsz[rndn(7)]; if (!dictKind) dictSize = 0; }
    if (dictKind == DK_CDICT) cdict = LZ4F_createCDict(g_dictbuf + (70000 - dictSize), dictSize);
    if (dictKind != DK_NONE && dictSize >= 300 && n >= 16 && rndp(70)) {
        /* content made of pieces of the dictionary (any place of it, head and tail alike), so that blocks really reference it */
        size_t pos = 0; const u8* dict = g_dictbuf + (70000 - dictSize);
        din = xalloc(n);
        while (pos < n) {
            size_t len = 4 + rndn(rndp(30) ? 2000 : 60), from = rndp(30) ? rndn(300) : rndp(40) ? dictSize - 1 - rndn(300) : rndn((u32)dictSize);
            if (len > n - pos) len = n - pos; if (from + len > dictSize) from = dictSize - len < dictSize ? dictSize - len : 0;
            if (rndp(15)) { size_t k; for (k = 0; k < len; k++) din[pos + k] = (u8)rnd(); } else memcpy(din + pos, dict + from, len <= dictSize ? len : dictSize), (len > dictSize ? memset(din + pos + dictSize, 7, len - dictSize) : (void*)0);
            pos += len;
        }
        in = din; n_dict_derived++;
    }
    if (kind == K_COMPRESSFRAME && rndp(10)) { useNull = 1; memset(&prefs, 0, sizeof prefs); }
    rec_begin(&r, OP_FRAME); rec_int(&r, kind); rec_prefs(&r, &prefs); rec_int(&r, (long long)dictSize); rec_int(&r, dictKind); rec_bytes(&r, in, n); rec_bytes(&r, NULL, 0);
    cur_set(&r);
    if (kind == K_STREAM) rc = make_frame_stream(cctx, &prefs, in, n, dictKind, dictSize, cdict, &out, 0);
    else {
        size_t cap = LZ4F_compressFrameBound(n, &prefs); u8* dst = xalloc(cap); size_t res; u8* src = xalloc(n); memcpy(src, in, n);
        if (kind == K_COMPRESSFRAME) { g_life_n = 0; g_life_init_n = 0; g_life_on = 1; }
        res = (kind == K_COMPRESSFRAME) ? LZ4F_compressFrame(dst, cap, src, n, useNull ? NULL : &prefs) : LZ4F_compressFrame_usingCDict(cctx, dst, cap, src, n, cdict, &prefs);
        g_life_on = 0; n_calls++;
        /* a one-shot frame whose blocks went through LZ4_compress_fast_continue (linked blocks, fast level, no dictionary): ALSO a record of kind 7 for the
         * end-to-end model of linked-blocks frames, with the schedule logged by the interposed calls (the source is stable: no history is ever saved) */
        if (kind == K_COMPRESSFRAME && !LZ4F_isError(res) && dictKind == DK_NONE && g_life_n > 0 && n <= 300000) {
            rec_t k7 = r; u32 qi; for (qi = 0; qi < r.n; qi++) if (r.p[qi] == &r.ints[qi]) k7.p[qi] = &k7.ints[qi];
            k7.ints[0] = 7; k7.n -= 1; rec_bytes(&k7, dst, res); rec_bytes(&k7, NULL, 0); rec_bytes(&k7, g_life, g_life_n); rec_bytes(&k7, g_life_init, g_life_init_n); rec_write(&k7); n_oneshot_linked++; }
        if (kind == K_COMPRESSFRAME && 0) {}
        if (LZ4F_isError(res)) rc = 5; else vec_put(&out, dst, res);
        free(dst); free(src);
    }
    n_frames++;
    r.n -= 1; rec_bytes(&r, out.p, out.n); rec_bytes(&r, g_ops, (kind == K_STREAM && g_nops <= sizeof g_ops) ? g_nops : 0);
    if (rc) { char why[64]; snprintf(why, sizeof why, "compression_call_failed_%d", rc); c_fail(&r, why); }
    else {
        /* the real decoder, several chunkings: must return 0 exactly at the last byte and reproduce the input */
        int npol = thorough ? 6 : 3;
        for (p = 0; p < npol; p++) {
            int policy = (p == 0) ? 0 : (n > 20000 && p == 1 ? 5 : (int)(1 + rndn(5)));
            decres_t d;
            if (policy == 1 && out.n > 30000) policy = 2;
            if ((policy == 2 || policy == 4) && n > 300000) policy = 5;
            g_trace_fresh = 1; d = decode_frame(dctx, out.p, out.n, policy, 0, g_dictbuf + (70000 - dictSize), dictSize, rnd()); n_decodes++; g_trace_fresh = 0;
            if (d.verdict != 0) { char why[80]; snprintf(why, sizeof why, d.noprogress ? "decoder_no_progress_policy%d" : "roundtrip_decode_not_complete_policy%d", policy); c_fail(&r, why); LZ4F_resetDecompressionContext(dctx); }
            else if (d.consumed != out.n) c_fail(&r, "roundtrip_decode_stopped_before_frame_end");
            else if (d.out.n != n || (n && memcmp(d.out.p, in, n) != 0)) c_fail(&r, "roundtrip_content_mismatch");
            free(d.out.p);
        }
    }
    if (kind != K_STREAM && prefs.frameInfo.blockSizeID == 0 && 0) {}
    cur_clear(); rec_write(&r);
    free(out.p); free(din); if (cdict) LZ4F_freeCDict(cdict);
}

/* decode arbitrary bytes under all chunking policies: same verdict, same output; record for the judge */
static void decode_case(LZ4F_dctx* dctx, const u8* bytes, size_t n, size_t dictSize, int skipChecksums, int thorough)
{
    rec_t r; decres_t ref; int p; int npol = thorough ? 6 : 4; u64 ps = rnd();
    rec_begin(&r, OP_FRAMEDEC); rec_int(&r, skipChecksums); rec_int(&r, (long long)dictSize); rec_bytes(&r, bytes, n); rec_int(&r, 0); rec_int(&r, 0); rec_bytes(&r, NULL, 0);
    cur_set(&r);
    LZ4F_resetDecompressionContext(dctx);
    g_trace_fresh = 1; ref = decode_frame(dctx, bytes, n, 0, skipChecksums, g_dictbuf + (70000 - dictSize), dictSize, ps); n_decodes++; g_trace_fresh = 0;
    if (ref.verdict == 0) n_dec_ok++; else if (ref.verdict == 1) n_dec_err++; else n_dec_incomplete++;
    r.n = 3; rec_int(&r, ref.verdict); rec_int(&r, (long long)ref.consumed); rec_bytes(&r, ref.out.p, ref.verdict == 0 ? ref.out.n : 0);
    rec_int(&r, (ref.verdict == 1 && LZ4F_isError(ref.errcode)) ? (long long)LZ4F_getErrorCode(ref.errcode) : 0);   /* arg 6: LZ4F error enum */
    if (ref.noprogress) c_fail(&r, "decoder_no_progress");
    for (p = 1; p < npol; p++) {
        int policy = (p == 1 && n <= 4000) ? 1 : (int)(2 + rndn(4)); decres_t d;
        LZ4F_resetDecompressionContext(dctx);
        g_trace_fresh = 1; d = decode_frame(dctx, bytes, n, policy, skipChecksums, g_dictbuf + (70000 - dictSize), dictSize, rnd()); n_decodes++; g_trace_fresh = 0;
        if (d.noprogress) c_fail(&r, "decoder_no_progress");
        else if (d.verdict != ref.verdict) { char why[96]; snprintf(why, sizeof why, "verdict_depends_on_chunking_policy%d_%d_vs_%d", policy, d.verdict, ref.verdict); c_fail(&r, why); }
        else if (d.verdict == 0 && (d.out.n != ref.out.n || (d.out.n && memcmp(d.out.p, ref.out.p, d.out.n) != 0) || d.consumed != ref.consumed)) c_fail(&r, "output_depends_on_chunking");
        free(d.out.p);
    }
    LZ4F_resetDecompressionContext(dctx);
    cur_clear(); rec_write(&r); free(ref.out.p);
}

static void genfunc_rec(int fn, long long a, long long b, long long c, long long d, long long e, long long result)
{ rec_t r; rec_begin(&r, OP_GENFUNC); rec_int(&r, fn); rec_int(&r, a); rec_int(&r, b); rec_int(&r, c); rec_int(&r, d); rec_int(&r, e); rec_int(&r, result); rec_write(&r); }

/* One linked-blocks frame of more than 1 GB decoded into ONE contiguous destination with stableDst = 1: the history LZ4F_decompress keeps inside the
 * destination grows beyond 1 GB (the "dictSize > 1 GB" clamp in front of both LZ4_decompress_safe_usingDict calls).  The frame is produced and consumed
 * piecewise (4 MB updates), the content is regenerated for comparison: period 48 KB with sparse noise, so every block starts with matches that reach
 * into the previous block. */
static u64 n_big_bytes;
static void big_contiguous_decode(size_t total)
{
    enum { CH = 4 << 20, PER = 49152 };
    LZ4F_cctx* cc = NULL; LZ4F_dctx* dc = NULL; LZ4F_preferences_t prefs; LZ4F_decompressOptions_t opt; u8* base = xalloc(PER); u8* chunk = xalloc(CH); u8* cbuf; size_t ccap;
    u8* dst = (u8*)malloc(total); size_t fedIn = 0, outPos = 0, checked = 0, r, i; rec_t rr; u64 noise = 0x9E3779B97F4A7C15ULL; int done = 0, bad = 0;
    if (!dst) { free(base); free(chunk); return; }                      /* not enough memory here: the scenario is skipped (reported through the statistics) */
    memset(&prefs, 0, sizeof prefs); prefs.frameInfo.blockMode = LZ4F_blockLinked; prefs.frameInfo.blockSizeID = LZ4F_max4MB; prefs.frameInfo.contentChecksumFlag = LZ4F_contentChecksumEnabled;
    memset(&opt, 0, sizeof opt); opt.stableDst = 1;
    for (i = 0; i < PER; i++) base[i] = (u8)rnd();
    ccap = LZ4F_compressBound(CH, &prefs) + 64; cbuf = xalloc(ccap);
    LZ4F_createCompressionContext(&cc, LZ4F_VERSION); LZ4F_createDecompressionContext(&dc, LZ4F_VERSION);
    rec_begin(&rr, OP_FRAME + 103); rec_int(&rr, (long long)total); cur_set(&rr);
    r = LZ4F_compressBegin(cc, cbuf, ccap, &prefs);
    while (!bad && !done) {
        size_t have = r, off = 0;
        if (LZ4F_isError(r)) { c_fail(&rr, "compression_call_failed_big"); bad = 1; break; }
        while (off < have) {       /* feed what the compressor just produced */
            size_t in = have - off, o = total - outPos; size_t dr = LZ4F_decompress(dc, dst + outPos, &o, cbuf + off, &in, &opt); n_calls++;
            if (LZ4F_isError(dr)) { char why[96]; snprintf(why, sizeof why, "roundtrip_decode_error_big_%s_at_%zu", LZ4F_getErrorName(dr), outPos); c_fail(&rr, why); bad = 1; break; }
            off += in; outPos += o;
            if (dr == 0) { done = 1; break; }
            if (in == 0 && o == 0) { c_fail(&rr, "decoder_no_progress_big"); bad = 1; break; }
        }
        /* compare what has been decoded so far with the regenerated content */
        while (!bad && checked + CH <= outPos) {
            u64 nz = 0x9E3779B97F4A7C15ULL ^ (u64)(checked / CH); size_t k;
            for (k = 0; k < CH; k++) chunk[k] = base[(checked + k) % PER];
            for (k = 0; k < 40; k++) { nz = nz * 6364136223846793005ULL + 1442695040888963407ULL; chunk[(nz >> 33) % CH] ^= (u8)(nz >> 13) | 1; }
            if (memcmp(chunk, dst + checked, CH) != 0) { char why[96]; size_t q = 0; while (chunk[q] == dst[checked + q]) q++; snprintf(why, sizeof why, "roundtrip_content_mismatch_big_at_%zu", checked + q); c_fail(&rr, why); bad = 1; }
            checked += CH;
        }
        if (bad || done) break;
        if (fedIn < total) {
            u64 nz = 0x9E3779B97F4A7C15ULL ^ (u64)(fedIn / CH); size_t k;
            for (k = 0; k < CH; k++) chunk[k] = base[(fedIn + k) % PER];
            for (k = 0; k < 40; k++) { nz = nz * 6364136223846793005ULL + 1442695040888963407ULL; chunk[(nz >> 33) % CH] ^= (u8)(nz >> 13) | 1; }
            r = LZ4F_compressUpdate(cc, cbuf, ccap, chunk, CH, NULL); fedIn += CH; n_calls++;
        } else r = LZ4F_compressEnd(cc, cbuf, ccap, NULL);
    }
    (void)noise;
    if (!bad && (!done || outPos != total || checked != total)) c_fail(&rr, "roundtrip_decode_not_complete_big");
    n_big_bytes += outPos;
    cur_clear();
    LZ4F_freeCompressionContext(cc); LZ4F_freeDecompressionContext(dc); free(base); free(chunk); free(cbuf); free(dst);
}

/* frames the end-to-end model of independent-blocks frames reproduces byte for byte (Model/FrameFast.lean).  Record kind 5. */
static void indep_model_frames(u8* data, int thorough)
{
    int i;
    {   /* frames the END-TO-END model (Model/FrameFast.lean) reproduces byte for byte: a FRESH compression context, a fast level, independent blocks,
             * no dictionary, compressed updates and flushes only; everything else random (block size id, checksums, content size, dictID, autoFlush,
             * update sizes).  Record kind 5. */
            int nm = thorough ? SH(800) : 120;
            for (i = 0; i < nm; i++) {
                static const int fastLevels[] = {0, 0, 1, -1, -3, -100, 1};
                size_t n = rndp(50) ? rndn(3000) : rndp(70) ? rndn(140000) : rndn(280000); LZ4F_preferences_t prefs = rand_prefs(n); LZ4F_cctx* fresh = NULL; vec_t out; rec_t r; int rc;
                memset(&out, 0, sizeof out);
                prefs.frameInfo.blockMode = LZ4F_blockIndependent; prefs.compressionLevel = fastLevels[rndn(7)]; if (n > 200000 && prefs.frameInfo.blockSizeID > 5) prefs.frameInfo.blockSizeID = LZ4F_max256KB;
                gen_data(data, n, (int)rndn(D_KINDS));
                if (LZ4F_isError(LZ4F_createCompressionContext(&fresh, LZ4F_VERSION))) continue;
                if (rndp(45)) {   /* the context has a past (C19): in this mode LZ4F_compressBegin does not reset the LZ4 state, the one-shot calls decide themselves */
                    int q, nq = 1 + (int)rndn(3); for (q = 0; q < nq; q++) { static const int lv[] = {0, 1, -2, 0, 0, 9}; size_t jn = rndp(50) ? rndn(5000) : rndn(150000); LZ4F_preferences_t jp = rand_prefs(jn); vec_t junk; memset(&junk, 0, sizeof junk);
                        jp.compressionLevel = lv[rndn(6)]; gen_data(data, jn, (int)rndn(D_KINDS)); make_frame_stream(fresh, &jp, data, jn, DK_NONE, 0, NULL, &junk, 0); free(junk.p); }
                    gen_data(data, n, (int)rndn(D_KINDS)); n_indep_reused++; }
                rec_begin(&r, OP_FRAME); rec_int(&r, 5); rec_prefs(&r, &prefs); rec_int(&r, 0); rec_int(&r, DK_NONE); rec_bytes(&r, data, n); rec_bytes(&r, NULL, 0); cur_set(&r);
                g_indep_init_n = 0; g_indep_on = 1;
                g_no_uncompressed = 1; rc = make_frame_stream(fresh, &prefs, data, n, DK_NONE, 0, NULL, &out, 0); g_no_uncompressed = 0;
                g_indep_on = 0;
                if (rc) { char why[48]; snprintf(why, sizeof why, "compression_call_failed_%d", rc); c_fail(&r, why); }
                else { r.n -= 1; rec_bytes(&r, out.p, out.n); rec_bytes(&r, g_ops, g_nops <= sizeof g_ops ? g_nops : 0); rec_bytes(&r, g_indep_init, g_indep_init_n); n_frames++; n_model_frames++; }
                cur_clear(); rec_write(&r); free(out.p); LZ4F_freeCompressionContext(fresh);
            }
        }
}

/* frames the end-to-end model of linked-blocks frames reproduces byte for byte (Model/FrameLinked.lean): fast level, linked blocks, no dictionary, compressed
 * updates and flushes only, a context that is fresh or has a past.  Record kind 6. */
static void linked_model_frames(u8* data, int thorough)
{
    int i;
    {   /* frames with LINKED blocks (the default block mode): the model takes the schedule logged by the interposed calls.  Record kind 6. */
            int nm = thorough ? SH(800) : 120;
            for (i = 0; i < nm; i++) {
                static const int fastLevels[] = {0, 0, 1, -1, -3, -100, 1};
                size_t n = rndp(50) ? rndn(3000) : rndp(70) ? rndn(140000) : rndn(280000); LZ4F_preferences_t prefs = rand_prefs(n); LZ4F_cctx* fresh = NULL; vec_t out; rec_t r; int rc; int dk = DK_NONE; size_t dsz = 0; LZ4F_CDict* cd = NULL;
                memset(&out, 0, sizeof out);
                prefs.frameInfo.blockMode = LZ4F_blockLinked; prefs.compressionLevel = fastLevels[rndn(7)]; if (n > 200000 && prefs.frameInfo.blockSizeID > 5) prefs.frameInfo.blockSizeID = LZ4F_max256KB; if (rndp(55)) prefs.frameInfo.blockSizeID = LZ4F_max64KB;   /* many blocks */
                gen_data(data, n, rndp(25) ? D_RANDOM : (int)rndn(D_KINDS));
                if (LZ4F_isError(LZ4F_createCompressionContext(&fresh, LZ4F_VERSION))) continue;
                if (rndp(55)) {   /* the context has a past: earlier frames of other contents, sizes, block modes and levels (C19 / C18) */
                    int q, nq = 1 + (int)rndn(3); for (q = 0; q < nq; q++) { static const int lv[] = {0, 1, -2, 0, 3, 9}; size_t jn = rndp(50) ? rndn(5000) : rndn(150000); LZ4F_preferences_t jp = rand_prefs(jn); vec_t junk; memset(&junk, 0, sizeof junk);
                        jp.compressionLevel = lv[rndn(6)]; gen_data(data, jn, (int)rndn(D_KINDS)); make_frame_stream(fresh, &jp, data, jn, DK_NONE, 0, NULL, &junk, 0); free(junk.p); }
                    gen_data(data, n, rndp(25) ? D_RANDOM : (int)rndn(D_KINDS)); n_linked_reused++; }
                /* a third of these frames use a dictionary: a CDict (the prepared stream is attached; with independent blocks before EVERY block) or a raw
                 * dictionary (loaded into the working stream); the content quotes it */
                if (rndp(35) && n >= 64) { size_t q, nq = 1 + rndn(12); dk = rndp(65) ? DK_CDICT : DK_DICT; dsz = rndp(50) ? 64 + rndn(2000) : rndp(50) ? 64 + rndn(69000) : 70000;
                    for (q = 0; q < nq; q++) { size_t l = 8 + rndn(200), from = rndn((u32)dsz), to; if (l > n) l = n; if (from + l > dsz) l = dsz - from; to = rndn((u32)(n - l + 1)); memcpy(data + to, g_dictbuf + (70000 - dsz) + from, l); }
                    if (dk == DK_CDICT) { cd = LZ4F_createCDict(g_dictbuf + (70000 - dsz), dsz); if (rndp(50)) prefs.frameInfo.blockMode = LZ4F_blockIndependent; }
                    n_dict_derived++; n_linked_dict++; }
                rec_begin(&r, OP_FRAME); rec_int(&r, 6); rec_prefs(&r, &prefs); rec_int(&r, (long long)dsz); rec_int(&r, dk); rec_bytes(&r, data, n); rec_bytes(&r, NULL, 0); cur_set(&r);
                g_life_n = 0; g_life_init_n = 0; g_life_on = 1;
                g_no_uncompressed = 1; rc = make_frame_stream(fresh, &prefs, data, n, dk, dsz, cd, &out, 0); g_no_uncompressed = 0;
                g_life_on = 0; if (cd) LZ4F_freeCDict(cd);
                if (rc) { char why[48]; snprintf(why, sizeof why, "compression_call_failed_%d", rc); c_fail(&r, why); }
                else { r.n -= 1; rec_bytes(&r, out.p, out.n); rec_bytes(&r, g_life, g_life_n); rec_bytes(&r, g_life_init, g_life_init_n); n_frames++; n_linked_model_frames++; }
                cur_clear(); rec_write(&r); free(out.p); LZ4F_freeCompressionContext(fresh);
            }
        }
}

int main(int argc, char** argv)
{
    const char* mode; int thorough, i; u64 seed; u8* data; size_t maxn; LZ4F_cctx* cctx; LZ4F_dctx* dctx;
    if (argc < 6) { fprintf(stderr, "usage: frm mode tier seed casefile crashfile\n"); return 2; }
    mode = argv[1]; thorough = !strcmp(argv[2], "thorough"); g_thorough = thorough; if (thorough) g_trace_budget = 600ll << 20; seed = strtoull(argv[3], 0, 10);
    harness_init(argv[4], argv[5], seed);
    g_dictbuf = xalloc(70000); gen_data(g_dictbuf, 70000, D_LZLIKE);
    { rec_t b; rec_begin(&b, 100); rec_int(&b, 1); rec_bytes(&b, g_dictbuf, 70000); rec_write(&b); }
    maxn = thorough ? (9u << 20) : (600u << 10); data = xalloc(maxn + 16);
    LZ4F_createCompressionContext(&cctx, LZ4F_VERSION); dctx = new_dctx(0);

    if (!strcmp(mode, "c03") && ONCE) big_contiguous_decode(((size_t)1 << 30) + (48u << 20));
    if (!strcmp(mode, "c03") || !strcmp(mode, "c07")) {
        int ncases = thorough ? SH(1200) : 260;
        for (i = 0; i < ncases; i++) {
            int kindD = i % 4 == 0 ? D_RANDOM : (int)rndn(D_KINDS); size_t n; int kind;
            switch (rndn(8)) { case 0: n = rndn(40); break; case 1: n = 65536 + rndn(5) - 2; break; case 2: n = 2 * 65536 + rndn(5) - 2; break; case 3: n = rndn((u32)maxn); break; case 4: n = 262144 + rndn(3) - 1; break; default: n = rndn(200000); }
            if (n > maxn) n = maxn;
            if (!thorough && i % 10 != 0 && n > 250000) n = rndn(250000);
            gen_data(data, n, kindD);
            kind = !strcmp(mode, "c07") ? (int)rndn(3) : (rndp(80) ? K_STREAM : (int)rndn(3));
            frame_case(cctx, dctx, data, n, kind, thorough);
        }
        indep_model_frames(data, thorough);
        linked_model_frames(data, thorough);
        if (!strcmp(mode, "c07")) {
            /* headers alone: what LZ4F_compressBegin writes for a sweep of preferences incl. content sizes around and beyond 2^32 (a frame of that size is not
             * produced here; the header is a function of the preferences only and is judged on its own: record kind 3) */
            static const unsigned long long csz[] = {1, 255, 65536, 0xFFFFFFFFULL, 0x100000000ULL, 0x100000001ULL, 0x200000000ULL, 0x10000000000ULL, 0x7FFFFFFFFFFFFFFFULL, 0x8000000000000000ULL, 0xFFFFFFFF00000000ULL, 0xFFFFFFFFFFFFFFFFULL, 0};
            int ci, bm, cc, bc, bs, di;
            for (ci = 0; ci < 13; ci++) for (bm = 0; bm < 2; bm++) for (cc = 0; cc < 2; cc++) for (bc = 0; bc < 2; bc++) for (bs = 0; bs < 5; bs++) for (di = 0; di < 3; di++) {
                LZ4F_preferences_t prefs; u8 hb[32]; size_t hr; rec_t r;
                if (!thorough && rndp(60)) continue;
                memset(&prefs, 0, sizeof prefs); prefs.frameInfo.contentSize = csz[ci]; prefs.frameInfo.blockMode = (LZ4F_blockMode_t)bm; prefs.frameInfo.contentChecksumFlag = (LZ4F_contentChecksum_t)cc;
                prefs.frameInfo.blockChecksumFlag = (LZ4F_blockChecksum_t)bc; prefs.frameInfo.blockSizeID = (LZ4F_blockSizeID_t)(bs ? 3 + bs : 0); prefs.frameInfo.dictID = di == 0 ? 0 : di == 1 ? 1 : 0xFFFFFFFFu;
                prefs.compressionLevel = rndp(50) ? 0 : 9;
                rec_begin(&r, OP_FRAME); rec_int(&r, 3); rec_prefs(&r, &prefs); rec_int(&r, 0); rec_int(&r, DK_NONE); rec_bytes(&r, NULL, 0); rec_bytes(&r, NULL, 0); cur_set(&r);
                hr = LZ4F_compressBegin(cctx, hb, sizeof hb, &prefs); n_calls++;
                if (LZ4F_isError(hr)) c_fail(&r, "compression_call_failed_1");
                else { r.n -= 1; rec_bytes(&r, hb, hr); n_headers++; }
                cur_clear(); rec_write(&r);
            }
        }
    } else if (!strcmp(mode, "c08")) {
        /* valid small frames; all single-bit flips and truncations of some; random damage; all FLG/BD pairs (sampled in quick) */
        int nframes = thorough ? SH(400) : 24;
        for (i = 0; i < nframes; i++) {
            LZ4F_preferences_t prefs = rand_prefs(0); vec_t f; size_t n = rndp(60) ? rndn(120) : rndn(70000); size_t k; u8* m;
            memset(&f, 0, sizeof f); gen_data(data, n, (int)rndn(D_KINDS)); prefs.frameInfo.contentSize = rndp(40) ? n : 0;
            if (make_frame_stream(cctx, &prefs, data, n, DK_NONE, 0, NULL, &f, 0)) { free(f.p); continue; }
            decode_case(dctx, f.p, f.n, 0, 0, thorough);
            m = xalloc(f.n + 8);
            if (f.n <= 300) {
                for (k = 0; k < f.n * 8; k++) { memcpy(m, f.p, f.n); m[k / 8] ^= (u8)(1u << (k % 8)); decode_case(dctx, m, f.n, 0, (int)(k % 5 == 0), thorough); }
                for (k = 0; k < f.n; k++) decode_case(dctx, f.p, k, 0, 0, thorough);
            } else {
                int reps = thorough ? 200 : 40;
                while (reps--) { size_t len = f.n; int j, nd = 1 + (int)rndn(3); memcpy(m, f.p, f.n);
                    for (j = 0; j < nd; j++) { size_t at = rndp(40) ? rndn(24) % len : rndn((u32)len); m[at] = rndp(50) ? (u8)rnd() : (u8)(m[at] ^ (1u << rndn(8))); }
                    if (rndp(25)) len = rndn((u32)len + 1);
                    decode_case(dctx, m, len, 0, rndp(20), thorough); }
            }
            /* trailing bytes / two frames in one buffer */
            { memcpy(m, f.p, f.n); for (k = 0; k < 8; k++) m[f.n + k] = (u8)rnd(); decode_case(dctx, m, f.n + 1 + rndn(8), 0, 0, thorough); }
            free(m); free(f.p);
        }
        {   /* every FLG/BD pair with the right and a wrong header checksum (no optional fields beyond what FLG asks for) */
            u32 step = thorough ? (u32)g_shards : 37, v; u32 start = thorough ? (u32)g_shard : rndn(37);
            for (v = start; v < 65536; v += step) {
                u8 h[32]; size_t len = 6; u8 flg = (u8)(v >> 8), bd = (u8)v; int w;
                h[0] = 0x04; h[1] = 0x22; h[2] = 0x4D; h[3] = 0x18; h[4] = flg; h[5] = bd;
                if (flg & 8) { memset(h + len, 0, 8); len += 8; } if (flg & 1) { memset(h + len, 0x11, 4); len += 4; }
                for (w = 0; w < 2; w++) {
                    u8 hc = (u8)(XXH32(h + 4, len - 4, 0) >> 8); size_t L = len; u8 fr[40];
                    memcpy(fr, h, len); fr[L++] = w ? (u8)(hc ^ (1 + rndn(255))) : hc;
                    fr[L++] = 0; fr[L++] = 0; fr[L++] = 0; fr[L++] = 0;                 /* EndMark */
                    if (flg & 4) { u32 c = XXH32("", 0, 0); memcpy(fr + L, &c, 4); L += 4; }
                    decode_case(dctx, fr, L, 0, 0, 0);
                }
            }
        }
        {   /* hand-made frames (independent of the LZ4F compressor): block checksum on, one literal-only COMPRESSED block whose size is
             * at / just below the declared maximum (legal, but the compressor itself would store such a block raw) */
            int ds; static const int below[] = {0, 1, 2, 3, 4, 5, 100};
            for (ds = 0; ds < 7; ds++) {
                size_t S = 65536 - (size_t)below[ds], L, bl = 0; u8* fr = xalloc(S + 64); size_t p = 0; u32 c; u8 hc;
                for (L = S; L > 0; L--) { size_t ext = L >= 15 ? (L - 15) / 255 + 1 : 0; if (1 + ext + L == S) break; }
                if (!L) { free(fr); continue; }
                fr[p++] = 0x04; fr[p++] = 0x22; fr[p++] = 0x4D; fr[p++] = 0x18; fr[p++] = 0x40 | 0x20 | 0x10; fr[p++] = 4 << 4;
                hc = (u8)(XXH32(fr + 4, 2, 0) >> 8); fr[p++] = hc;
                c = (u32)S; memcpy(fr + p, &c, 4); p += 4;
                bl = p; fr[p++] = 0xF0; { size_t v = L - 15; while (v >= 255) { fr[p++] = 255; v -= 255; } fr[p++] = (u8)v; }
                { size_t k; for (k = 0; k < L; k++) fr[p++] = (u8)(k * 7 + ds); }
                c = XXH32(fr + bl, p - bl, 0); memcpy(fr + p, &c, 4); p += 4;
                memset(fr + p, 0, 4); p += 4;
                { LZ4F_dctx* fresh = new_dctx(1); decode_case(fresh, fr, p, 0, 0, 1); LZ4F_freeDecompressionContext(fresh); g_da[1].owner = NULL; }
                {   /* the same frame on a context whose buffers were sized by an EARLIER frame with other header flags (no block checksum / linked blocks / larger blocks) */
                    static const u8 primFLG[] = {0x60, 0x40, 0x64, 0x60}; static const u8 primBD[] = {4 << 4, 4 << 4, 4 << 4, 5 << 4}; int pk;
                    for (pk = 0; pk < 4; pk++) {
                        u8 pf[32]; size_t q = 0; LZ4F_dctx* primed = new_dctx(1); decres_t t; u32 z;
                        pf[q++] = 0x04; pf[q++] = 0x22; pf[q++] = 0x4D; pf[q++] = 0x18; pf[q++] = primFLG[pk]; pf[q++] = primBD[pk]; pf[q] = (u8)(XXH32(pf + 4, 2, 0) >> 8); q++;
                        z = 0x80000003u; memcpy(pf + q, &z, 4); q += 4; pf[q++] = 'a'; pf[q++] = 'b'; pf[q++] = 'c'; memset(pf + q, 0, 4); q += 4;
                        if (primFLG[pk] & 4) { z = XXH32("abc", 3, 0); memcpy(pf + q, &z, 4); q += 4; }
                        t = decode_frame(primed, pf, q, 0, 0, NULL, 0, rnd()); free(t.out.p);
                        if (t.verdict != 0) { rec_t e; rec_begin(&e, OP_FRAMEDEC); rec_int(&e, 0); rec_int(&e, 0); rec_bytes(&e, pf, q); c_fail(&e, "valid_frame_not_completed"); }
                        decode_case(primed, fr, p, 0, 0, 1); LZ4F_freeDecompressionContext(primed); g_da[1].owner = NULL;
                    }
                }   /* a fresh context sizes its buffers for THIS frame */
                free(fr);
            }
        }
        {   /* frames whose DECLARED content size is wrong: a valid multi-block frame (one block per flushed chunk, compressible data so the blocks are
             * compressed) whose content-size field is rewritten to the decoded size at every block boundary, +-1, and beyond the real size; header
             * checksum recomputed, so the size check at the end mark is the only thing that can (and must) reject it */
            int rep, nrep = thorough ? 12 : 3;
            for (rep = 0; rep < nrep; rep++) {
                LZ4F_preferences_t prefs; size_t nch = 2 + rndn(5), c, total = 0, sums[8], cap, pos = 0, res; u8* fr; size_t chunk[8];
                memset(&prefs, 0, sizeof prefs); prefs.frameInfo.blockMode = (LZ4F_blockMode_t)rndn(2); prefs.frameInfo.contentChecksumFlag = (LZ4F_contentChecksum_t)rndn(2);
                prefs.frameInfo.blockChecksumFlag = (LZ4F_blockChecksum_t)rndn(2); prefs.compressionLevel = rndp(30) ? 9 : 0;
                for (c = 0; c < nch; c++) { chunk[c] = rndp(30) ? 65536 : 200 + rndn(30000); total += chunk[c]; sums[c] = total; }
                gen_data(data, total, D_LZLIKE); prefs.frameInfo.contentSize = total;
                cap = LZ4F_compressBound(total, &prefs) + nch * 16 + 64; fr = xalloc(cap);
                res = LZ4F_compressBegin(cctx, fr, cap, &prefs); if (LZ4F_isError(res)) { free(fr); continue; } pos = res;
                {   size_t off = 0; int bad = 0;
                    for (c = 0; c < nch && !bad; c++) {
                        res = LZ4F_compressUpdate(cctx, fr + pos, cap - pos, data + off, chunk[c], NULL); if (LZ4F_isError(res)) { bad = 1; break; } pos += res;
                        res = LZ4F_flush(cctx, fr + pos, cap - pos, NULL); if (LZ4F_isError(res)) { bad = 1; break; } pos += res; off += chunk[c];
                    }
                    if (!bad) { res = LZ4F_compressEnd(cctx, fr + pos, cap - pos, NULL); if (LZ4F_isError(res)) bad = 1; else pos += res; }
                    n_calls += 2 * nch + 2;
                    if (bad) { free(fr); continue; }
                }
                decode_case(dctx, fr, pos, 0, 0, thorough);                      /* the honest frame */
                for (c = 0; c < nch + 2; c++) {
                    static const long long deltas[] = {0, -1, 1}; int di;
                    for (di = 0; di < 3; di++) {
                        unsigned long long declared = (c < nch ? sums[c] : c == nch ? total + 65536 : 1) + (unsigned long long)deltas[di]; int k2;
                        if (declared == total || declared == 0) continue;
                        for (k2 = 0; k2 < 8; k2++) fr[6 + k2] = (u8)(declared >> (8 * k2));
                        fr[14] = (u8)(XXH32(fr + 4, 10, 0) >> 8);
                        decode_case(dctx, fr, pos, 0, (int)rndn(2), thorough); n_forged_size++;
                    }
                }
                free(fr);
            }
        }
        {   /* skippable frames */
            for (i = 0; i < 16; i++) { u8 s[64]; u32 magic = 0x184D2A50u + (u32)i; u32 sz = rndn(40); size_t k; memcpy(s, &magic, 4); memcpy(s + 4, &sz, 4); for (k = 0; k < sz; k++) s[8 + k] = (u8)rnd();
                decode_case(dctx, s, 8 + sz, 0, 0, thorough); if (sz) decode_case(dctx, s, 8 + sz - 1, 0, 0, thorough); }
        }
    } else if (!strcmp(mode, "c10")) {
        /* bound functions: (a) translated Gen functions agree with the C functions, (b) exact-capacity calls for every buffered amount and both update kinds */
        int ncases = thorough ? SH(3000) : 300;
        for (i = 0; i < (thorough ? SH(100000) : 3000); i++) {
            LZ4F_preferences_t p = rand_prefs(0); size_t s = rndp(30) ? rndn(10) : rndp(50) ? rndn(300000) : (size_t)rnd() % (1ull << 33); int nul = rndp(8);
            if (rndp(5)) p.frameInfo.blockSizeID = (LZ4F_blockSizeID_t)rndn(10);
            genfunc_rec(1, (long long)s, nul ? -1LL : (long long)p.frameInfo.blockSizeID, p.frameInfo.blockChecksumFlag, p.frameInfo.contentChecksumFlag, p.autoFlush, (long long)LZ4F_compressBound(s, nul ? NULL : &p));
            genfunc_rec(2, (long long)s, nul ? -1LL : (long long)p.frameInfo.blockSizeID, p.frameInfo.blockChecksumFlag, p.frameInfo.contentChecksumFlag, p.autoFlush, (long long)LZ4F_compressFrameBound(s, nul ? NULL : &p));
            genfunc_rec(3, p.frameInfo.blockSizeID, 0, 0, 0, 0, (long long)LZ4F_getBlockSize(p.frameInfo.blockSizeID));
            n_calls += 3;
        }
        for (i = 0; i < ncases; i++) {
            LZ4F_preferences_t prefs = rand_prefs(0); size_t bs; size_t buffered, srcSize; int firstKind, secondKind; u8* dst; size_t cap, r; rec_t rc; int capDelta;
            static const int deltas[] = {0, 0, 0, -1, 1, -1000000};
            prefs.frameInfo.contentSize = 0; if (rndp(70)) prefs.frameInfo.blockSizeID = LZ4F_max64KB; if (rndp(30)) prefs.compressionLevel = 0;
            while (4 * LZ4F_getBlockSize(prefs.frameInfo.blockSizeID) > maxn) prefs.frameInfo.blockSizeID = (LZ4F_blockSizeID_t)(prefs.frameInfo.blockSizeID - 1);   /* buffered + srcSize must fit the data buffer */
            bs = LZ4F_getBlockSize(prefs.frameInfo.blockSizeID);
            switch (rndn(5)) { case 0: buffered = 0; break; case 1: buffered = 1 + rndn(20); break; case 2: buffered = bs - 1; break; case 3: buffered = bs - 1 - rndn(10); break; default: buffered = rndn((u32)bs); }
            switch (rndn(6)) { case 0: srcSize = 0; break; case 1: srcSize = bs; break; case 2: srcSize = bs - buffered; break; case 3: srcSize = bs + 1 + rndn(10); break; case 4: srcSize = rndn((u32)(3 * bs)); break; default: srcSize = 1 + rndn(100); }
            firstKind = (prefs.frameInfo.blockMode == LZ4F_blockIndependent) ? (int)rndn(2) : 0; secondKind = (prefs.frameInfo.blockMode == LZ4F_blockIndependent) ? (int)rndn(2) : 0;
            if (firstKind != secondKind && buffered) n_switch++;
            gen_data(data, buffered + srcSize, rndp(70) ? D_RANDOM : (int)rndn(D_KINDS));
            rec_begin(&rc, OP_FRAME + 100); rec_prefs(&rc, &prefs); rec_int(&rc, (long long)buffered); rec_int(&rc, (long long)srcSize); rec_int(&rc, firstKind); rec_int(&rc, secondKind); cur_set(&rc);
            dst = xalloc(LZ4F_HEADER_SIZE_MAX); r = LZ4F_compressBegin(cctx, dst, LZ4F_HEADER_SIZE_MAX, &prefs); free(dst); n_calls++;
            if (LZ4F_isError(r)) { c_fail(&rc, "begin_failed"); continue; }
            if (buffered) {   /* leave `buffered` bytes in the internal buffer (autoFlush prevents buffering: then nothing is buffered, still a legal history) */
                cap = LZ4F_compressBound(buffered, &prefs); dst = xalloc(cap);
                r = firstKind ? LZ4F_uncompressedUpdate(cctx, dst, cap, data, buffered, NULL) : LZ4F_compressUpdate(cctx, dst, cap, data, buffered, NULL); n_calls++; free(dst);
                if (LZ4F_isError(r)) { c_fail(&rc, "first_update_failed_at_bound"); continue; }
            }
            capDelta = deltas[rndn(6)];
            cap = LZ4F_compressBound(srcSize, &prefs); if (capDelta == -1000000) cap = rndn(20); else if ((long long)cap + capDelta >= 0) cap = (size_t)((long long)cap + capDelta);
            dst = xalloc(cap);
            r = secondKind ? LZ4F_uncompressedUpdate(cctx, dst, cap, data + buffered, srcSize, NULL) : LZ4F_compressUpdate(cctx, dst, cap, data + buffered, srcSize, NULL); n_calls++;
            if (LZ4F_isError(r)) { if (capDelta >= 0 && (firstKind == secondKind || !buffered)) c_fail(&rc, "update_failed_with_capacity_at_bound"); }
            else if (r > cap) c_fail(&rc, "update_wrote_more_than_capacity");
            if (!LZ4F_isError(r) && !prefs.autoFlush && firstKind == secondKind && srcSize > 0)   /* the model's worst case (every full block stored raw) really is an upper bound of what the update wrote */
                genfunc_rec(5, (long long)srcSize, prefs.frameInfo.blockSizeID ? prefs.frameInfo.blockSizeID : 4, prefs.frameInfo.blockChecksumFlag, (long long)buffered, 0, (long long)r);
            free(dst);
            if (!LZ4F_isError(r)) {
                cap = LZ4F_compressBound(0, &prefs); dst = xalloc(cap);
                if (rndp(50)) { r = LZ4F_flush(cctx, dst, cap, NULL); n_calls++; if (LZ4F_isError(r)) c_fail(&rc, "flush_failed_at_bound0"); else if (r > cap) c_fail(&rc, "flush_wrote_more_than_capacity"); }
                r = LZ4F_compressEnd(cctx, dst, cap, NULL); n_calls++; if (LZ4F_isError(r)) c_fail(&rc, "end_failed_at_bound0"); else if (r > cap) c_fail(&rc, "end_wrote_more_than_capacity");
                free(dst);
            }
            cur_clear();
        }
        {   /* flush / end / mode-switching update with SMALL capacities around the buffered amount: error or within capacity, never beyond */
            static const size_t Ns[] = {1, 10, 100, 4000, 65535}; int ni, cb, cc, which, capd;
            for (ni = 0; ni < 5; ni++) for (cb = 0; cb < 2; cb++) for (cc = 0; cc < 2; cc++) for (which = 0; which < 3; which++) for (capd = 0; capd <= 13; capd++) {
                LZ4F_preferences_t prefs; size_t N = Ns[ni]; size_t cap = N + (size_t)capd; u8* dst; size_t r; rec_t rc; u8 hdr[LZ4F_HEADER_SIZE_MAX];
                memset(&prefs, 0, sizeof prefs); prefs.frameInfo.blockSizeID = LZ4F_max64KB; prefs.frameInfo.blockMode = LZ4F_blockIndependent; prefs.frameInfo.blockChecksumFlag = (LZ4F_blockChecksum_t)cb; prefs.frameInfo.contentChecksumFlag = (LZ4F_contentChecksum_t)cc;
                gen_data(data, N + 8, D_RANDOM);
                rec_begin(&rc, OP_FRAME + 102); rec_prefs(&rc, &prefs); rec_int(&rc, (long long)N); rec_int(&rc, (long long)cap); rec_int(&rc, which); cur_set(&rc);
                r = LZ4F_compressBegin(cctx, hdr, sizeof hdr, &prefs); n_calls++; if (LZ4F_isError(r)) { c_fail(&rc, "begin_failed"); continue; }
                dst = xalloc(LZ4F_compressBound(N, &prefs)); r = LZ4F_compressUpdate(cctx, dst, LZ4F_compressBound(N, &prefs), data, N, NULL); free(dst); n_calls++;
                if (LZ4F_isError(r)) { c_fail(&rc, "first_update_failed_at_bound"); continue; }
                dst = xalloc(cap);
                if (which == 0) r = LZ4F_flush(cctx, dst, cap, NULL);
                else if (which == 1) r = LZ4F_compressEnd(cctx, dst, cap, NULL);
                else r = LZ4F_uncompressedUpdate(cctx, dst, cap, data + N, 1, NULL);       /* switch of mode with N bytes buffered */
                n_calls++;
                if (!LZ4F_isError(r) && r > cap) c_fail(&rc, which == 0 ? "flush_wrote_more_than_capacity" : which == 1 ? "end_wrote_more_than_capacity" : "update_wrote_more_than_capacity");
                free(dst); cur_clear();
            }
        }
        for (i = 0; i < (thorough ? SH(2000) : 200); i++) {   /* compressFrame at exactly the frame bound, and below */
            LZ4F_preferences_t prefs = rand_prefs(0); size_t n = rndp(50) ? rndn(300) : rndn(200000); size_t cap, r; u8* dst; rec_t rc; int below = rndp(30);
            gen_data(data, n, rndp(70) ? D_RANDOM : (int)rndn(D_KINDS)); prefs.frameInfo.contentSize = rndp(30) ? n : 0;
            rec_begin(&rc, OP_FRAME + 101); rec_prefs(&rc, &prefs); rec_int(&rc, (long long)n); cur_set(&rc);
            cap = LZ4F_compressFrameBound(n, &prefs); if (below) cap = rndn((u32)cap);
            dst = xalloc(cap); r = LZ4F_compressFrame(dst, cap, data, n, &prefs); n_calls++;
            if (!below && LZ4F_isError(r)) c_fail(&rc, "compressFrame_failed_at_frameBound");
            if (!LZ4F_isError(r) && r > cap) c_fail(&rc, "compressFrame_wrote_more_than_capacity");
            free(dst); cur_clear();
        }
    } else if (!strcmp(mode, "c19")) {
        linked_model_frames(data, thorough); indep_model_frames(data, thorough);
        /* context reuse: sessions that end normally, are abandoned, or fail; then a fresh frame must be valid and identical to a fresh context's */
        int ncases = thorough ? SH(9000) : 200;
        for (i = 0; i < ncases; i++) {
            size_t n = rndp(60) ? rndn(3000) : rndn(150000); LZ4F_preferences_t prefs; vec_t a, b; LZ4F_cctx* fresh; rec_t r; int sab = (int)rndn(5); int dk = DK_NONE; size_t dsz = 0; LZ4F_CDict* cd19 = NULL;
            memset(&a, 0, sizeof a); memset(&b, 0, sizeof b);
            /* sabotage the shared context first */
            {   LZ4F_preferences_t p0 = rand_prefs(0); u8 tmp[64]; size_t k = rndn(70000); vec_t junk; memset(&junk, 0, sizeof junk); gen_data(data, k, (int)rndn(D_KINDS));
                switch (sab) {
                case 0: break;                                                                                    /* nothing */
                case 1: LZ4F_compressBegin(cctx, tmp, sizeof tmp, &p0); break;                                      /* begun, never continued */
                case 2: { u64 s = g_rs; make_frame_stream(cctx, &p0, data, k, DK_NONE, 0, NULL, &junk, 0); (void)s; break; }   /* a complete other frame */
                case 3: LZ4F_compressBegin(cctx, tmp, sizeof tmp, &p0); LZ4F_compressUpdate(cctx, tmp, 3, data, k ? k : 1, NULL); break;   /* failed: dst too small */
                default: { u8* d = xalloc(LZ4F_compressBound(k, &p0)); LZ4F_compressBegin(cctx, tmp, sizeof tmp, &p0); LZ4F_compressUpdate(cctx, d, LZ4F_compressBound(k, &p0), data, k, NULL); free(d); break; } /* abandoned mid-frame */
                }
                free(junk.p); n_calls += 2;
            }
            gen_data(data, n, (int)rndn(D_KINDS)); prefs = rand_prefs(n);
            /* a third of the frames are begun with a raw dictionary (LZ4F_compressBegin_usingDict) and quote it: the dictionary must be loaded into whatever
             * kind of block context the history left */
            if (rndp(35) && n >= 64) { size_t q, nq = 1 + rndn(12); dk = rndp(50) ? DK_DICT : DK_CDICT; dsz = rndp(50) ? 64 + rndn(2000) : 64 + rndn(69000);
                for (q = 0; q < nq; q++) { size_t l = 8 + rndn(200), from = rndn((u32)dsz), to; if (l > n) l = n; if (from + l > dsz) l = dsz - from; to = rndn((u32)(n - l + 1)); memcpy(data + to, g_dictbuf + (70000 - dsz) + from, l); } n_dict_derived++;
                if (dk == DK_CDICT) cd19 = LZ4F_createCDict(g_dictbuf + (70000 - dsz), dsz);   /* a prepared dictionary: attached at every level, before every block when the blocks are independent */ }
            rec_begin(&r, OP_FRAME); rec_int(&r, K_STREAM); rec_prefs(&r, &prefs); rec_int(&r, (long long)dsz); rec_int(&r, dk); rec_bytes(&r, data, n); rec_bytes(&r, NULL, 0); cur_set(&r);
            {   u64 s = g_rs; int rc1, rc2;
                rc1 = make_frame_stream(cctx, &prefs, data, n, dk, dsz, cd19, &a, 0);
                LZ4F_createCompressionContext(&fresh, LZ4F_VERSION); g_rs = s;
                rc2 = make_frame_stream(fresh, &prefs, data, n, dk, dsz, cd19, &b, 0);
                LZ4F_freeCompressionContext(fresh);
                r.n -= 1; rec_bytes(&r, a.p, a.n);
                if (rc1 || rc2) c_fail(&r, rc1 ? "begin_after_history_failed" : "fresh_context_failed");
                /* NOT a failure: the property asks for a VALID frame (judged from the record by the specification parser), not for the bytes of a fresh
                 * context; they legitimately differ (a fresh hash table's zero entries are candidates "position 0", a fast-reset table's stale entries are not) */
                else if (a.n != b.n || (a.n && memcmp(a.p, b.p, a.n) != 0)) n_reused_differs++;
            }
            n_frames++;
            /* decoder side: history on the shared dctx, then this frame must decode as on a fresh context, one frame per completion */
            if (a.n) {
                const u8* dd = dk != DK_NONE ? g_dictbuf + (70000 - dsz) : NULL; size_t dds = dk != DK_NONE ? dsz : 0;   /* the decoder is given the dictionary the frame was begun with */
                int hist = (int)rndn(5); decres_t d; size_t fsz = a.n; u8* two; vec_t hf; LZ4F_preferences_t hp = rand_prefs(0); size_t hn = 200 + rndn(100000);
                /* the frame used for the history has its own preferences (content size present in half of the cases) */
                memset(&hf, 0, sizeof hf); { u8* hd = xalloc(hn); gen_data(hd, hn, (int)rndn(D_KINDS)); hp.frameInfo.contentSize = rndp(60) ? hn : 0; { LZ4F_cctx* hc; LZ4F_createCompressionContext(&hc, LZ4F_VERSION); if (make_frame_stream(hc, &hp, hd, hn, DK_NONE, 0, NULL, &hf, 0)) hf.n = 0; LZ4F_freeCompressionContext(hc); } free(hd); }
                if (hf.n == 0) { vec_put(&hf, a.p, a.n); }
                switch (hist) {
                case 0: break;
                case 1: { decres_t t = decode_frame(dctx, a.p, a.n, 0, 0, dd, dds, rnd()); free(t.out.p); break; }                       /* a completed frame */
                case 2: { decres_t t = decode_frame(dctx, hf.p, rndp(50) ? 7 + rndn(30) : rndn((u32)hf.n), rndp(50) ? 0 : 2, 0, dd, dds, rnd()); free(t.out.p); LZ4F_resetDecompressionContext(dctx); break; }   /* truncated (often right after the header), then reset */
                case 3: { u8* m = xalloc(hf.n); decres_t t; memcpy(m, hf.p, hf.n); m[hf.n > 40 ? 20 + rndn((u32)hf.n - 20) : rndn((u32)hf.n)] ^= 0x40; t = decode_frame(dctx, m, hf.n, rndp(50) ? 0 : 2, 0, dd, dds, rnd()); free(t.out.p); free(m); LZ4F_resetDecompressionContext(dctx); break; }  /* corrupted, then reset */
                default: { u8 s[48]; u32 magic = 0x184D2A50u + rndn(16), sz = rndn(40); decres_t t; memcpy(s, &magic, 4); memcpy(s + 4, &sz, 4); memset(s + 8, 7, sz); t = decode_frame(dctx, s, 8 + sz, (int)rndn(3), 0, dd, dds, rnd()); free(t.out.p); break; }  /* skippable */
                }
                if (rndp(50)) {   /* header consumed by LZ4F_getFrameInfo, rest by LZ4F_decompress: must still decode like a fresh context */
                    LZ4F_frameInfo_t fi; size_t hsz = a.n; size_t hr = LZ4F_getFrameInfo(dctx, &fi, a.p, &hsz);
                    if (LZ4F_isError(hr)) c_fail(&r, "getFrameInfo_failed");
                    else { decres_t d2 = decode_frame(dctx, a.p + hsz, a.n - hsz, rndp(50) ? 0 : 2, 0, dd, dds, rnd()); n_decodes++;
                        if (d2.verdict != 0) { c_fail(&r, "reused_dctx_failed_on_valid_frame"); LZ4F_resetDecompressionContext(dctx); }
                        else if (d2.out.n != n || (n && memcmp(d2.out.p, data, n) != 0)) c_fail(&r, "reused_dctx_wrong_content");
                        free(d2.out.p); }
                }
                free(hf.p);
                /* two frames in one buffer: the first completion must stop exactly at the end of the first frame */
                two = xalloc(2 * fsz); memcpy(two, a.p, fsz); memcpy(two + fsz, a.p, fsz);
                d = decode_frame(dctx, two, 2 * fsz, rndp(50) ? 0 : 5, 0, dd, dds, rnd()); n_decodes++;
                if (d.verdict != 0) c_fail(&r, "reused_dctx_failed_on_valid_frame");
                else if (d.consumed != fsz) c_fail(&r, "completion_did_not_stop_at_frame_end");
                else if (d.out.n != n || (n && memcmp(d.out.p, data, n) != 0)) c_fail(&r, "reused_dctx_wrong_content");
                free(d.out.p); free(two);
                {   /* getFrameInfo: consumes exactly the header, reports the parameters */
                    LZ4F_frameInfo_t fi; size_t sz = a.n; size_t hr; size_t hs = LZ4F_headerSize(a.p, a.n);
                    LZ4F_resetDecompressionContext(dctx);
                    hr = LZ4F_getFrameInfo(dctx, &fi, a.p, &sz);
                    if (LZ4F_isError(hr) || LZ4F_isError(hs)) c_fail(&r, "getFrameInfo_failed");
                    else if (sz != hs) c_fail(&r, "getFrameInfo_consumed_not_header_size");
                    else if (fi.blockMode != prefs.frameInfo.blockMode || fi.contentChecksumFlag != prefs.frameInfo.contentChecksumFlag || fi.blockChecksumFlag != prefs.frameInfo.blockChecksumFlag
                             || fi.contentSize != prefs.frameInfo.contentSize || fi.dictID != prefs.frameInfo.dictID
                             || fi.blockSizeID != (prefs.frameInfo.blockSizeID ? prefs.frameInfo.blockSizeID : LZ4F_max64KB)) c_fail(&r, "getFrameInfo_wrong_parameters");
                    LZ4F_resetDecompressionContext(dctx);
                }
                {   /* getFrameInfo AFTER decoding has started (the header went through LZ4F_decompress: all at once with no room for output, or in pieces):
                     * no input is read, the parameters of the header are reported, decoding resumes where it stood */
                    int how; 
                    for (how = 0; how < 3; how++) {
                        LZ4F_frameInfo_t fi; size_t hs = LZ4F_headerSize(a.p, a.n), fed = 0, sz, hr, lastres = 1; int bad = 0; u8 small[8];
                        if (LZ4F_isError(hs) || a.n < hs + 4) break;
                        LZ4F_resetDecompressionContext(dctx);
                        while (!bad && fed < hs) {      /* how 0: everything offered, output capacity 0; how 1: header bytes in pieces of 1..5; how 2: exactly the header */
                            size_t in = how == 0 ? a.n - fed : (how == 1 ? 1 + rndn(5) : hs), o = how == 0 ? 0 : sizeof small, res; u8* src;
                            if (how != 0 && in > hs - fed) in = hs - fed;
                            src = xalloc(in); memcpy(src, a.p + fed, in);
                            res = dds ? LZ4F_decompress_usingDict(dctx, small, &o, src, &in, dd, dds, NULL) : LZ4F_decompress(dctx, small, &o, src, &in, NULL); n_calls++; free(src);   /* the dictionary is registered by the FIRST call of a frame */
                            if (LZ4F_isError(res) || o != 0) { bad = 1; break; }
                            lastres = res;
                            if (in == 0) break;
                            fed += in;
                        }
                        if (bad || fed < hs || lastres == 0) { LZ4F_resetDecompressionContext(dctx); continue; }   /* lastres == 0: an empty frame offered whole was decoded to its end: no frame is in progress any more */
                        memset(&fi, 0x5A, sizeof fi); sz = a.n - fed;
                        { u8* src = xalloc(sz); memcpy(src, a.p + fed, sz); hr = LZ4F_getFrameInfo(dctx, &fi, src, &sz); free(src); }
                        if (LZ4F_isError(hr)) c_fail(&r, "getFrameInfo_failed");
                        else if (sz != 0) c_fail(&r, "getFrameInfo_consumed_input_after_start");
                        else if (fi.blockMode != prefs.frameInfo.blockMode || fi.contentChecksumFlag != prefs.frameInfo.contentChecksumFlag || fi.blockChecksumFlag != prefs.frameInfo.blockChecksumFlag
                                 || fi.contentSize != prefs.frameInfo.contentSize || fi.dictID != prefs.frameInfo.dictID || fi.frameType != LZ4F_frame
                                 || fi.blockSizeID != (prefs.frameInfo.blockSizeID ? prefs.frameInfo.blockSizeID : LZ4F_max64KB)) c_fail(&r, "getFrameInfo_wrong_parameters_after_start");
                        else {   /* and the rest of the frame still decodes to the content */
                            decres_t d5 = decode_frame(dctx, a.p + fed, a.n - fed, rndp(50) ? 0 : 2, 0, dd, dds, rnd()); n_decodes++;
                            if (d5.verdict != 0 || d5.out.n != n || (n && memcmp(d5.out.p, data, n) != 0)) c_fail(&r, "reused_dctx_wrong_content_after_getFrameInfo");
                            free(d5.out.p);
                        }
                        LZ4F_resetDecompressionContext(dctx);
                    }
                }
                {   /* a skippable frame then this frame in one buffer, consumed frame by frame on the context as it is now (it has a history);
                     * LZ4F_getFrameInfo in front of the skippable frame (it consumes its magic number) in most cases; any feed size incl. 1..3 bytes */
                    u8* buf = xalloc(48 + fsz); u32 magic = 0x184D2A50u + rndn(16), ssz = rndn(40); size_t pos = 0, k2, total; decres_t d3; int pol = (int[]){1, 1, 2, 0}[rndn(4)];
                    memcpy(buf, &magic, 4); memcpy(buf + 4, &ssz, 4); for (k2 = 0; k2 < ssz; k2++) buf[8 + k2] = (u8)rnd(); memcpy(buf + 8 + ssz, a.p, fsz); total = 8 + ssz + fsz;
                    if (rndp(75)) { LZ4F_frameInfo_t fi; size_t c = rndp(50) ? total : 8 + rndn(11); size_t hr = LZ4F_getFrameInfo(dctx, &fi, buf, &c);   /* needs the 8 bytes of magic number + size, consumes the magic number */ n_calls++;
                        if (LZ4F_isError(hr)) c_fail(&r, "getFrameInfo_failed"); else { pos = c; if (fi.frameType != LZ4F_skippableFrame) c_fail(&r, "getFrameInfo_wrong_parameters"); } }
                    d3 = decode_frame(dctx, buf + pos, total - pos, pol, 0, dd, dds, rnd()); n_decodes++;
                    if (d3.verdict != 0) { c_fail(&r, "reused_dctx_failed_on_valid_frame"); LZ4F_resetDecompressionContext(dctx); }
                    else if (pos + d3.consumed != 8 + ssz) c_fail(&r, "completion_did_not_stop_at_frame_end");
                    else if (d3.out.n != 0) c_fail(&r, "reused_dctx_wrong_content");
                    else { decres_t d4 = decode_frame(dctx, buf + 8 + ssz, fsz, (int[]){0, 1, 2}[rndn(3)], 0, dd, dds, rnd()); n_decodes++;
                        if (d4.verdict != 0) { c_fail(&r, "reused_dctx_failed_on_valid_frame"); LZ4F_resetDecompressionContext(dctx); }
                        else if (d4.consumed != fsz) c_fail(&r, "completion_did_not_stop_at_frame_end");
                        else if (d4.out.n != n || (n && memcmp(d4.out.p, data, n) != 0)) c_fail(&r, "reused_dctx_wrong_content");
                        free(d4.out.p); }
                    free(d3.out.p); free(buf);
                }
            }
            cur_clear(); rec_write(&r); free(a.p); free(b.p); if (cd19) LZ4F_freeCDict(cd19);
        }
    } else { fprintf(stderr, "unknown mode %s\n", mode); return 2; }

    LZ4F_freeCompressionContext(cctx); LZ4F_freeDecompressionContext(dctx);
    harness_done();
    stat_u("calls", n_calls); stat_u("reused_cctx_bytes_differ_from_fresh", n_reused_differs); stat_u("dictionary_derived_contents", n_dict_derived); stat_u("forged_content_sizes", n_forged_size); stat_u("headers_alone", n_headers); stat_u("frames_for_end_to_end_model", n_model_frames); stat_u("linked_frames_for_end_to_end_model", n_linked_model_frames); stat_u("linked_frames_on_reused_contexts", n_linked_reused); stat_u("model_frames_with_dictionary", n_linked_dict); stat_u("independent_frames_on_reused_contexts", n_indep_reused); stat_u("compressFrame_linked_frames_for_end_to_end_model", n_oneshot_linked); stat_u("linked_frames_blocks_logged", g_life_blocks); stat_u("linked_frames_saveDict_logged", g_life_saves); stat_u("frames", n_frames); stat_u("decodes", n_decodes); stat_u("flushes", n_flush); stat_u("uncompressed_updates", n_uncomp); stat_u("volatile_sources", n_volatile);
    stat_u("mode_switches_with_buffered_data", n_switch); stat_u("dec_complete", n_dec_ok); stat_u("dec_error", n_dec_err); stat_u("dec_incomplete", n_dec_incomplete); stat_u("records", g_nrecords); stat_u("bytes_decoded_into_one_contiguous_buffer", n_big_bytes); stat_u("dstage_traces", n_traces); stat_u("dstage_traced_calls", n_trace_calls);
    stat_u("cfails", (u64)g_cfails);
    free(data); free(g_dictbuf);
    return g_cfails ? 1 : 0;
}
