/* Decoder-side harness: runs the REAL decoders of lz4.c under ASan/UBSan with exact-size heap buffers on
 *  - blocks serialised from randomly drawn *specification-level sequences* (G1; not made by liblz4's compressors),
 *  - mutations of those and of compressor output (G3), random byte strings over an "interesting" alphabet,
 *  - every declared srcSize / capacity / target around the true values, dictionaries of boundary sizes in both placements,
 * and writes one record per call for the Lean judge (decoder model + specification).
 *
 * usage: dec <mode> <tier> <seed> <casefile> <crashfile>       modes: c02 c05 c16
 * Compile with -DLZ4_FAST_DEC_LOOP=0 for the second build; the flag value is recorded in each case.
 */
#define LZ4_STATIC_LINKING_ONLY
#include "lz4.c"
#include "gen.h"

enum { OP_DECODE = 2 };
enum { M_SAFE = 0, M_PARTIAL, M_USINGDICT, M_PARTIAL_USINGDICT, M_CONTINUE_PREFIX, M_CONTINUE_EXT, M_FAST, M_FAST_USINGDICT, M_INPLACE, M_NB };
static const char* const m_names[M_NB] = {"safe","partial","usingDict","partial_usingDict","continue_prefix","continue_ext","fast","fast_usingDict","inplace"};
enum { PL_CONTIG = 0, PL_EXT = 1 };

static u64 n_reused_sd; static u64 n_calls, n_ok, n_err, mode_hist[M_NB], dict_hist[4], src_hist[4];

/* ---------- G1: blocks from specification-level sequences ---------- */
typedef struct { u8* blk; size_t blkSize; u8* content; size_t contentSize; int valid; } genblk_t;

static size_t put_len(u8* p, size_t v) { size_t n = 0; while (v >= 255) { p[n++] = 255; v -= 255; } p[n++] = (u8)v; return n; }

static size_t pick_lits(void) { static const size_t s[] = {0,0,0,1,1,2,3,5,14,15,16,17,30,269,270,271,524,525,526,1000}; size_t v = s[rndn(20)]; if (rndp(15)) v += rndn(40); return v; }
static size_t pick_ml(void) { static const size_t s[] = {4,4,4,5,6,7,8,12,16,17,18,19,20,21,32,33,64,273,274,275,528,529,530,1043,4100,70000}; size_t v = s[rndn(rndp(3) ? 26 : 24)]; if (rndp(15)) v += rndn(40); return v; }
static size_t pick_off(size_t avail, size_t histSize, size_t outSoFar)
{
    static const size_t s[] = {1,1,2,2,3,4,4,5,6,7,8,8,9,15,16,17,31,32,33,64,255,256,257,4095,4096,65534,65535};
    size_t o; size_t maxo = avail < 65535 ? avail : 65535;
    if (maxo == 0) return 0;
    switch (rndn(8)) {
    case 0: case 1: case 2: case 3: o = s[rndn(27)]; break;
    case 4: o = 1 + rndn((u32)maxo); break;
    case 5: o = outSoFar + 1 + (histSize ? rndn((u32)(histSize < 20 ? histSize : 20)) : 0); break;   /* reaches into history by a little */
    case 6: o = outSoFar ? outSoFar - rndn((u32)(outSoFar < 4 ? outSoFar : 4)) : 1; break;            /* reaches to the very start of the block */
    default: o = maxo - rndn((u32)(maxo < 3 ? maxo : 3)); break;                                       /* farthest */
    }
    if (o < 1) o = 1; if (o > maxo) o = maxo;
    return o;
}

static int g_fill = 0;   /* 1: keep adding sequences until the target content size is reached */
/* hist: bytes logically in front of the block (may be NULL).  valid=1: respects the end-of-block rules */
static genblk_t gen_block(const u8* hist, size_t histSize, size_t targetContent, int valid)
{
    genblk_t g; size_t capC = targetContent + 80000 + 16, capB = capC + capC / 200 + 64; size_t bp = 0, cp = 0; int nseq = (int)rndn(rndp(30) ? 3 : 40); size_t lastMl = 0;
    u8* all = xalloc(histSize + capC);      /* hist ++ content, to resolve matches */
    g.blk = xalloc(capB);
    if (histSize) memcpy(all, hist, histSize);
    while ((g_fill || nseq-- > 0) && cp < targetContent) {
        size_t ll = pick_lits(), ml = pick_ml(), off, i; u8* tok;
        if (ml > 4100 && targetContent < 70000) ml = 4 + rndn(300);
        if (cp + ll + ml + 12 > capC - 16) break;
        if (bp + ll + ll / 255 + ml / 255 + 16 > capB) break;
        if (histSize + cp + ll == 0) ll = 1 + rndn(4);    /* a match needs something to copy from */
        off = pick_off(histSize + cp + ll, histSize, cp + ll);
        tok = &g.blk[bp++];
        if (ll >= 15) { *tok = 0xF0; bp += put_len(g.blk + bp, ll - 15); } else *tok = (u8)(ll << 4);
        for (i = 0; i < ll; i++) { u8 b = rndp(70) ? (u8)rnd() : (u8)('a' + rndn(3)); g.blk[bp++] = b; all[histSize + cp++] = b; }
        g.blk[bp++] = (u8)off; g.blk[bp++] = (u8)(off >> 8);
        if (ml - 4 >= 15) { *tok |= 15; bp += put_len(g.blk + bp, ml - 4 - 15); } else *tok |= (u8)(ml - 4);
        for (i = 0; i < ml; i++) { all[histSize + cp] = all[histSize + cp - off]; cp++; }
        lastMl = ml;
    }
    {   /* last literals */
        size_t ll = pick_lits(), i; int hadMatch = bp > 0;
        if (valid && hadMatch && ll < 5) ll = 5 + rndn(3);
        /* valid: last match must start >= 12 bytes before the end: true if ml >= 7 with ll>=5; enforce by adding literals */
        if (valid && hadMatch && ll + lastMl < 12) ll = 12 - lastMl;
        if (cp + ll > capC) ll = capC - cp;
        if (ll >= 15) { g.blk[bp++] = 0xF0; bp += put_len(g.blk + bp, ll - 15); } else g.blk[bp++] = (u8)(ll << 4);
        for (i = 0; i < ll; i++) { u8 b = (u8)rnd(); g.blk[bp++] = b; all[histSize + cp++] = b; }
    }
    g.valid = valid; g.blkSize = bp; g.contentSize = cp; g.content = xalloc(cp); memcpy(g.content, all + histSize, cp); free(all);
    return g;
}
static void free_block(genblk_t* g) { free(g->blk); free(g->content); }

/* ---------- one decoder call ---------- */
static u8 init_byte(size_t i, int s) { return (u8)(0xA5 ^ (i * 13 + (size_t)s)); }

/* expect: content bytes if known valid (NULL otherwise). declared srcSize may differ from the block size (srcAlloc bytes are allocated) */
static size_t g_trueBlk = 0;
static void do_decode(int mode, const u8* blk, size_t srcSize, const u8* dict, size_t dictSize, int placement,
                      int cap, int target, const u8* expect, size_t expectSize, int flags)
{
    rec_t r; int ret = 0; int initSeed = (int)rndn(256); size_t i;
    u8* src = xalloc(srcSize); u8* region; u8* dst; u8* xdict = NULL; size_t pre = 0; size_t capN = cap > 0 ? (size_t)cap : 0;
    memcpy(src, blk, srcSize);
    if (dictSize && placement == PL_CONTIG && (mode == M_USINGDICT || mode == M_PARTIAL_USINGDICT || mode == M_CONTINUE_PREFIX || mode == M_FAST_USINGDICT)) pre = dictSize;
    region = xalloc(pre + capN); dst = region + pre;
    if (pre) memcpy(region, dict, pre);
    else if (dictSize) { xdict = xalloc(dictSize); memcpy(xdict, dict, dictSize); }
    for (i = 0; i < capN; i++) dst[i] = init_byte(i, initSeed);
    rec_begin(&r, OP_DECODE);
    rec_int(&r, mode); rec_int(&r, LZ4_FAST_DEC_LOOP); rec_int(&r, placement); rec_int(&r, cap); rec_int(&r, target); rec_int(&r, initSeed);
    rec_bytes(&r, src, srcSize); rec_int(&r, (long long)dictSize); rec_int(&r, 0); rec_bytes(&r, NULL, 0); rec_int(&r, flags); rec_int(&r, expect ? (long long)expectSize : -1); rec_int(&r, (long long)g_trueBlk);
    cur_set(&r);
    {   const char* d = pre ? (const char*)region : (const char*)xdict;
        switch (mode) {
        case M_SAFE: ret = LZ4_decompress_safe((const char*)src, (char*)dst, (int)srcSize, cap); break;
        case M_PARTIAL: ret = LZ4_decompress_safe_partial((const char*)src, (char*)dst, (int)srcSize, target, cap); break;
        case M_USINGDICT: ret = LZ4_decompress_safe_usingDict((const char*)src, (char*)dst, (int)srcSize, cap, d, (int)dictSize); break;
        case M_PARTIAL_USINGDICT: ret = LZ4_decompress_safe_partial_usingDict((const char*)src, (char*)dst, (int)srcSize, target, cap, d, (int)dictSize); break;
        case M_CONTINUE_PREFIX: case M_CONTINUE_EXT: {
            /* half of the time the LZ4_streamDecode_t is a REUSED one: an earlier session decoded two blocks into two separate buffers (so it knows an
             * external dictionary), those buffers are gone (freed: touching them is a fault), and LZ4_setStreamDecode starts the new session */
            static LZ4_streamDecode_t reused; LZ4_streamDecode_t fresh; LZ4_streamDecode_t* sd = &fresh;
            if (rndp(50)) { static const char lit5[6] = {0x50, 'h', 'e', 'l', 'l', 'o'}; char* b1 = (char*)malloc(5); char* b2 = (char*)malloc(64); char* cs = (char*)malloc(6); int r1, r2;
                memcpy(cs, lit5, 6); LZ4_setStreamDecode(&reused, NULL, 0);
                r1 = LZ4_decompress_safe_continue(&reused, cs, b1, 6, 5); r2 = LZ4_decompress_safe_continue(&reused, cs, b2 + 32, 6, 5); (void)r1; (void)r2;
                free(b1); free(b2); free(cs); sd = &reused; n_reused_sd++; }
            LZ4_setStreamDecode(sd, d, (int)dictSize); ret = LZ4_decompress_safe_continue(sd, (const char*)src, (char*)dst, (int)srcSize, cap); break; }
        case M_FAST: ret = LZ4_decompress_fast((const char*)src, (char*)dst, (int)expectSize); break;            /* valid input only */
        case M_FAST_USINGDICT: ret = LZ4_decompress_fast_usingDict((const char*)src, (char*)dst, (int)expectSize, d, (int)dictSize); break;
        }
    }
    n_calls++; mode_hist[mode]++; if (ret >= 0) n_ok++; else n_err++;
    dict_hist[dictSize == 0 ? 0 : dictSize < 65535 ? 1 : dictSize < 65537 ? 2 : 3]++;
    r.n = 8; rec_int(&r, ret); rec_bytes(&r, dst, ret > 0 && ret <= cap ? (size_t)ret : 0); rec_int(&r, flags); rec_int(&r, expect ? (long long)expectSize : -1); rec_int(&r, (long long)g_trueBlk);
    /* C-side checks that need the memory itself */
    if (mode == M_FAST || mode == M_FAST_USINGDICT) {
        if (ret != (int)srcSize || memcmp(dst, expect, expectSize) != 0) c_fail(&r, "fast_decoder_mismatch");
    } else {
        int lim = (mode == M_PARTIAL || mode == M_PARTIAL_USINGDICT) ? (target < cap ? target : cap) : cap;
        if (ret > lim && ret > 0) c_fail(&r, "ret_gt_capacity");
        if (mode == M_PARTIAL || mode == M_PARTIAL_USINGDICT) {   /* nothing beyond min(target, cap) may be written */
            for (i = lim > 0 ? (size_t)lim : 0; i < capN; i++) if (dst[i] != init_byte(i, initSeed)) { c_fail(&r, "partial_wrote_beyond_target"); break; }
        }
        if (pre && memcmp(region, dict, pre) != 0) c_fail(&r, "prefix_modified");
        if (xdict && memcmp(xdict, dict, dictSize) != 0) c_fail(&r, "dictionary_modified");
    }
    cur_clear(); rec_write(&r);
    free(src); free(region); free(xdict);
}

/* decode a generated block through the safe entry points around the interesting capacities */
static const size_t dictSizes[] = {0, 0, 0, 1, 7, 8, 300, 65534, 65535, 65536, 70000};

static void mutate(u8* b, size_t n)
{
    int k = 1 + (int)rndn(3);
    while (k-- && n) { size_t i = rndn((u32)n); switch (rndn(4)) { case 0: b[i] ^= (u8)(1u << rndn(8)); break; case 1: b[i] = (u8)rnd(); break; case 2: b[i] = 255; break; default: b[i] = (u8)(rndp(50) ? 0 : 0xF0 | rndn(16)); } }
}

/* ---------- chains of specification-generated blocks through LZ4_decompress_safe_continue ----------
 * Segments: a segment is a run of blocks decoded contiguously in one exact-size heap buffer; a new segment starts somewhere else
 * (another buffer) and the previous segment stays in place, unmodified: what lz4.h requires.  History visible to block k (and used by the
 * generator for its offsets) = last 64 KB of [previous segment ++ current segment so far].  Empty blocks (the single byte 0x00) included. */
static u64 n_chain_blocks, n_chain_empty, n_chain_switch_on_empty, n_chain_fast;
static void chain_case(int thorough)
{
    enum { MAXB = 40 };
    int nb = 2 + (int)rndn(thorough ? 38 : 24), k, nseg = 0; genblk_t g[MAXB]; int segOf[MAXB]; size_t segSize[MAXB]; u8* segBuf[MAXB]; size_t segFill[MAXB];
    u8* hist = xalloc(2 * 70000 + 16); size_t prevLen = 0, curLen = 0;   /* hist = prev segment tail (<= 64 KB) ++ current segment (kept <= 64 KB tail) */
    u8* prev = xalloc(70000); u8* cur = xalloc(70000 + 400000); size_t curTotal = 0;
    LZ4_streamDecode_t sd; rec_t r; int sawEmptySwitch = 0; int pinned = rndp(16);
    memset(segSize, 0, sizeof segSize);
    if (pinned && nb < 4) nb = 4;
    for (k = 0; k < nb; k++) {
        int sw = (k > 0) && rndp(25); int empty = rndp(12); size_t hl; size_t forced = 0;
        /* pinned geometry (1 chain in 6): a first segment of more than 64 KB, then a segment whose SECOND block carries its size across 64 KB - 1
         * while the decoder still holds the first segment as external dictionary: far matches of that block reach the old segment */
        if (pinned) { empty = 0; sw = (k == 1); if (k == 0) forced = 66000 + rndn(3000); else if (k == 1) forced = 30000 + rndn(34000); else if (k == 2) forced = 65535 - g[1].contentSize + 500 + rndn(3000); else if (k > 3) pinned = 0; }
        if (sw) {   /* new segment: the current one becomes "previous" */
            size_t keep = curLen < 65536 ? curLen : 65536; memcpy(prev, cur + (curLen - keep), keep); prevLen = keep; curLen = 0; nseg++;
            if (empty) sawEmptySwitch = 1;
        }
        segOf[k] = nseg;
        hl = 0; memcpy(hist, prev, prevLen); hl = prevLen; { size_t keep = curLen < 65536 ? curLen : 65536; memcpy(hist + hl, cur + (curLen - keep), keep); hl += keep; }
        if (empty) { g[k].blk = xalloc(1); g[k].blk[0] = 0; g[k].blkSize = 1; g[k].content = xalloc(0); g[k].contentSize = 0; g[k].valid = 1; n_chain_empty++; }
        else if (forced) { g_fill = 1; g[k] = gen_block(hl ? hist : NULL, hl, forced, 1); g_fill = 0; }
        else g[k] = gen_block(hl ? hist : NULL, hl, rndp(70) ? rndn(600) : rndn(thorough ? 60000 : 20000), 1);
        if (curLen + g[k].contentSize > 70000 + 400000 - 16) { /* keep the scratch bounded: force a switch next time */ }
        memcpy(cur + curLen, g[k].content, g[k].contentSize); curLen += g[k].contentSize; curTotal += g[k].contentSize;
        segSize[nseg] += g[k].contentSize;
        if (curLen > 400000) { size_t keep = 65536; memmove(cur, cur + (curLen - keep), keep); curLen = keep; }   /* only the tail matters for later histories */
    }
    nseg++;
    for (k = 0; k < nseg; k++) { segBuf[k] = xalloc(segSize[k]); segFill[k] = 0; }
    LZ4_setStreamDecode(&sd, NULL, 0);
    for (k = 0; k < nb; k++) {
        int sg = segOf[k]; u8* dst = segBuf[sg] + segFill[sg]; int cap = (int)g[k].contentSize; int ret; u8* src = xalloc(g[k].blkSize);
        memcpy(src, g[k].blk, g[k].blkSize);
        rec_begin(&r, OP_DECODE); rec_int(&r, M_CONTINUE_EXT); rec_int(&r, LZ4_FAST_DEC_LOOP); rec_int(&r, 9); rec_int(&r, cap); rec_int(&r, cap); rec_int(&r, 0);
        rec_bytes(&r, src, g[k].blkSize); rec_int(&r, 0); rec_int(&r, 0); rec_bytes(&r, NULL, 0); rec_int(&r, 4 /* chain: not judged per block */); rec_int(&r, (long long)g[k].contentSize); rec_int(&r, (long long)g[k].blkSize);
        cur_set(&r);
        if (sg >= 2 && segFill[sg] == 0 && segBuf[sg - 2]) { free(segBuf[sg - 2]); segBuf[sg - 2] = NULL; }   /* two segments back is no longer needed: a use of it is a fault */
        ret = LZ4_decompress_safe_continue(&sd, (const char*)src, (char*)dst, (int)g[k].blkSize, cap);
        n_calls++; n_chain_blocks++; mode_hist[M_CONTINUE_EXT]++; if (ret >= 0) n_ok++; else n_err++;
        if (ret != cap) c_fail(&r, "valid_block_rejected");
        else if (cap && memcmp(dst, g[k].content, (size_t)cap) != 0) c_fail(&r, "valid_block_wrong_bytes");
        cur_clear();
        segFill[sg] += g[k].contentSize; free(src);
        if (ret != cap) break;
    }
    if (sawEmptySwitch) n_chain_switch_on_empty++;
    for (k = 0; k < nseg; k++) free(segBuf[k]);
    {   /* the same chain through the deprecated LZ4_decompress_fast_continue (valid blocks only: it trusts its input), fresh segment buffers */
        LZ4_streamDecode_t sf; int okSoFar = 1;
        for (k = 0; k < nseg; k++) { segBuf[k] = xalloc(segSize[k]); segFill[k] = 0; }
        LZ4_setStreamDecode(&sf, NULL, 0);
        for (k = 0; k < nb && okSoFar; k++) {
            int sg = segOf[k]; u8* dst = segBuf[sg] + segFill[sg]; int cap = (int)g[k].contentSize; int ret; u8* src = xalloc(g[k].blkSize + 8);
            memcpy(src, g[k].blk, g[k].blkSize);
            rec_begin(&r, OP_DECODE); rec_int(&r, M_FAST); rec_int(&r, LZ4_FAST_DEC_LOOP); rec_int(&r, 9); rec_int(&r, cap); rec_int(&r, cap); rec_int(&r, 0);
            rec_bytes(&r, src, g[k].blkSize); rec_int(&r, 0); rec_int(&r, 0); rec_bytes(&r, NULL, 0); rec_int(&r, 4); rec_int(&r, (long long)g[k].contentSize); rec_int(&r, (long long)g[k].blkSize);
            cur_set(&r);
            ret = LZ4_decompress_fast_continue(&sf, (const char*)src, (char*)dst, cap);
            n_calls++; n_chain_fast++; if (ret >= 0) n_ok++; else n_err++;
            if (ret != (int)g[k].blkSize) { c_fail(&r, "valid_block_rejected"); okSoFar = 0; }
            else if (cap && memcmp(dst, g[k].content, (size_t)cap) != 0) { c_fail(&r, "fast_decoder_mismatch"); okSoFar = 0; }
            cur_clear();
            segFill[sg] += g[k].contentSize; free(src);
        }
        for (k = 0; k < nseg; k++) free(segBuf[k]);
    }
    for (k = 0; k < nb; k++) free_block(&g[k]);
    free(hist); free(prev); free(cur);
}

int main(int argc, char** argv)
{
    const char* mode; int thorough, i; u64 seed; u8* dictbuf;
    if (argc < 6) { fprintf(stderr, "usage: dec mode tier seed casefile crashfile\n"); return 2; }
    mode = argv[1]; thorough = !strcmp(argv[2], "thorough"); seed = strtoull(argv[3], 0, 10);
    harness_init(argv[4], argv[5], seed ^ (LZ4_FAST_DEC_LOOP ? 0 : 0x5555));
    dictbuf = xalloc(70000); gen_data(dictbuf, 70000, D_LZLIKE);
    { rec_t b; rec_begin(&b, 100); rec_int(&b, 1); rec_bytes(&b, dictbuf, 70000); rec_write(&b); }   /* blob 1 = dictionary source; dict of size s = its last s bytes */

    if (!strcmp(mode, "c05") || !strcmp(mode, "c02") || !strcmp(mode, "c16")) {
        int nblocks = thorough ? SH(150000) : 1500;
        int want_invalid = !strcmp(mode, "c02");
        for (i = 0; i < nblocks; i++) {
            size_t ds = dictSizes[rndn(11)]; const u8* dict = dictbuf + (70000 - ds);
            size_t tgt = rndp(70) ? rndn(400) : rndp(80) ? rndn(5000) : rndn(thorough ? 300000 : 90000);
            genblk_t g = gen_block(dict, ds, tgt, rndp(want_invalid ? 60 : 92));
            int D = (int)g.contentSize; int k; g_trueBlk = g.blkSize;
            if (!strcmp(mode, "c05")) {
                /* valid blocks through every decoder, capacities |D| .. |D|+70 */
                for (k = 0; k < 3; k++) {
                    int cap = D + (k == 0 ? 0 : k == 1 ? 1 + (int)rndn(12) : 13 + (int)rndn(58));
                    int pl = (int)rndn(2);
                    int m = ds ? (rndp(50) ? M_USINGDICT : (pl == PL_CONTIG ? M_CONTINUE_PREFIX : M_CONTINUE_EXT)) : M_SAFE;
                    do_decode(m, g.blk, g.blkSize, dict, ds, pl, cap, cap, g.content, g.contentSize, g.valid ? 1 : 0);
                }
                if (g.valid && rndp(30)) { int pl = (int)rndn(2); do_decode(ds ? M_FAST_USINGDICT : M_FAST, g.blk, g.blkSize, dict, ds, pl, D, D, g.content, g.contentSize, 1); }
            } else if (!strcmp(mode, "c16")) {
                /* partial decoding: every target for small contents, sampled for large */
                int t, step = D <= 400 ? 1 : 1 + D / 60; int trailing = rndp(30) ? (int)rndn(21) : 0;
                u8* blk2 = xalloc(g.blkSize + (size_t)trailing); memcpy(blk2, g.blk, g.blkSize); for (k = 0; k < trailing; k++) blk2[g.blkSize + (size_t)k] = (u8)rnd();
                for (t = 0; t <= D + 70; t += ((t > 20 && t < D - 20) ? step : (t > D + 2 ? 1 + (int)rndn(9) : 1))) {
                    int mint = t < D ? t : D; int cap = mint + (rndp(50) ? 0 : rndp(50) ? 1 : rndp(50) ? D - mint : D - mint + 64); int pl = (int)rndn(2);
                    if (cap < mint) cap = mint;
                    if (trailing && t > D) continue;   /* contract with trailing bytes only covers t <= |D| */
                    do_decode(ds ? M_PARTIAL_USINGDICT : M_PARTIAL, blk2, g.blkSize + (size_t)trailing, dict, ds, pl, cap, t, g.content, g.contentSize, (g.valid ? 1 : 0) | (trailing ? 2 : 0));
                }
                free(blk2);
            } else {
                /* c02: arbitrary bytes: mutations, truncations, wrong declared sizes, tiny capacities */
                u8* m = xalloc(g.blkSize + 24); int reps = 6;
                while (reps--) {
                    size_t n = g.blkSize; int cap, target, md, pl = (int)rndn(2);
                    memcpy(m, g.blk, g.blkSize); for (k = 0; k < 24; k++) m[g.blkSize + (size_t)k] = (u8)rnd();
                    if (rndp(70)) mutate(m, n);
                    switch (rndn(5)) { case 0: n = rndn((u32)n + 1); break; case 1: n += rndn(24); break; default: break; }
                    g_trueBlk = n;
                    switch (rndn(6)) { case 0: cap = 0; break; case 1: cap = (int)rndn((u32)D + 2); break; case 2: cap = D; break; case 3: cap = D + (int)rndn(80); break; case 4: cap = (int)rndn(70); break; default: cap = D > 12 ? D - (int)rndn(13) : D; }
                    target = rndp(50) ? cap : (int)rndn((u32)D + 40);
                    md = ds ? (int[]){M_USINGDICT, M_PARTIAL_USINGDICT, M_CONTINUE_PREFIX, M_CONTINUE_EXT}[rndn(4)] : (int[]){M_SAFE, M_PARTIAL}[rndn(2)];
                    if (md == M_CONTINUE_PREFIX) pl = PL_CONTIG; if (md == M_CONTINUE_EXT) pl = PL_EXT;
                    do_decode(md, m, n, dict, ds, pl, cap, target, NULL, 0, 0);
                }
                free(m);
            }
            free_block(&g);
        }
        if (!strcmp(mode, "c05")) { int nch = thorough ? SH(30000) : 400; for (i = 0; i < nch; i++) chain_case(thorough); }
        if (!strcmp(mode, "c02")) {
            /* random strings over an "interesting byte" alphabet, all short lengths */
            static const u8 alpha[] = {0x00,0x01,0x0F,0x10,0x11,0x1F,0x40,0x4F,0xF0,0xF1,0xFF,0x0E,0xE0,0xEF,0xFE,0x02,0x08,0x07,0x80,0x20,0x05,0x0C,0x13,0x50};
            int nrand = thorough ? SH(2000000) : 30000;
            for (i = 0; i < nrand; i++) {
                u8 b[64]; size_t n = 1 + rndn(i % 4 == 0 ? 60 : 12), k; g_trueBlk = n; int cap = (int)rndn(i % 3 == 0 ? 400 : 40); size_t ds = dictSizes[rndn(11)]; int pl = (int)rndn(2);
                int md = ds ? (rndp(50) ? M_USINGDICT : M_PARTIAL_USINGDICT) : (rndp(50) ? M_SAFE : M_PARTIAL);
                for (k = 0; k < n; k++) b[k] = rndp(85) ? alpha[rndn(24)] : (u8)rnd();
                do_decode(md, b, n, dictbuf + (70000 - ds), ds, pl, cap, rndp(50) ? cap : (int)rndn(60), NULL, 0, 0);
            }
        }
    } else { fprintf(stderr, "unknown mode %s\n", mode); return 2; }

    harness_done();
    stat_u("calls", n_calls); stat_u("reused_streamDecode_sessions", n_reused_sd); stat_u("chain_blocks", n_chain_blocks); stat_u("chain_empty_blocks", n_chain_empty); stat_u("chain_blocks_through_fast_continue", n_chain_fast); stat_u("chains_switching_on_empty_block", n_chain_switch_on_empty); stat_u("decoder_ok", n_ok); stat_u("decoder_error", n_err); stat_u("records", g_nrecords); stat_u("fast_dec_loop", LZ4_FAST_DEC_LOOP);
    for (i = 0; i < M_NB; i++) if (mode_hist[i]) { char k[64]; snprintf(k, sizeof k, "mode.%s", m_names[i]); stat_u(k, mode_hist[i]); }
    for (i = 0; i < 4; i++) if (dict_hist[i]) { char k[64]; snprintf(k, sizeof k, "dictclass.%d", i); stat_u(k, dict_hist[i]); }
    stat_u("cfails", (u64)g_cfails);
    free(dictbuf);
    return g_cfails ? 1 : 0;
}
