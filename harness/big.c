/* Size-boundary harness (C09, C01): one-shot compressors at srcSize == LZ4_MAX_INPUT_SIZE exactly (must succeed with capacity = LZ4_compressBound),
 * one above and negative (must return 0).  2.1 GB of zero pages (never touched before the compressor reads them), built WITHOUT sanitizers (-O2):
 * the point is the size guard of every entry point, not memory safety.  usage: big <mode> <tier> <seed> <casefile> <crashfile> */
#define LZ4_STATIC_LINKING_ONLY
#define LZ4_HC_STATIC_LINKING_ONLY
#include "lz4.c"
#include "lz4hc.c"
#include "gen.h"

static u64 n_calls;
static void fail_line(const char* why, const char* entry, long long size, long long ret)
{ printf("CFAIL reason=%s case=%s detail=size:%lld,ret:%lld file=\n", why, entry, size, ret); g_cfails++; }

int main(int argc, char** argv)
{
    int thorough; u64 seed; char* src; char* dst; int bound, r; rec_t b; static const char tiny[4] = "big";
    static const int hcLevels[] = {1, 2, 3, 4, 9, 12}; int nl, i;
    if (argc < 6) return 2;
    thorough = !strcmp(argv[2], "thorough"); seed = strtoull(argv[3], 0, 10);
    harness_init(argv[4], argv[5], seed);
    rec_begin(&b, 100); rec_int(&b, 99); rec_bytes(&b, tiny, 3); rec_write(&b);
    bound = LZ4_compressBound(LZ4_MAX_INPUT_SIZE);
    src = (char*)calloc((size_t)LZ4_MAX_INPUT_SIZE + 16, 1); dst = (char*)malloc((size_t)bound);
    if (!src || !dst || bound <= 0) { stat_u("big_skipped_no_memory", 1); stat_u("calls", 0); stat_u("records", g_nrecords); stat_u("cfails", 0); harness_done(); return 0; }
    /* the fast compressor, three entry points */
    r = LZ4_compress_default(src, dst, LZ4_MAX_INPUT_SIZE, bound); n_calls++;
    if (r <= 0 || r > bound) fail_line("bound_should_succeed", "LZ4_compress_default", LZ4_MAX_INPUT_SIZE, r);
    else {   /* and what it wrote decodes to the input (2.1 GB of zeros) */
        char* back = (char*)malloc((size_t)LZ4_MAX_INPUT_SIZE); int d;
        if (back) { size_t k; int bad = 0; d = LZ4_decompress_safe(dst, back, r, LZ4_MAX_INPUT_SIZE); n_calls++;
            if (d != LZ4_MAX_INPUT_SIZE) bad = 1; else for (k = 0; k < (size_t)LZ4_MAX_INPUT_SIZE; k += 4093) if (back[k]) { bad = 1; break; }
            if (bad) fail_line("real_decoder_mismatch_big", "LZ4_compress_default", LZ4_MAX_INPUT_SIZE, d);
            free(back); }
    }
    r = LZ4_compress_fast(src, dst, LZ4_MAX_INPUT_SIZE, bound, 50); n_calls++;
    if (r <= 0 || r > bound) fail_line("bound_should_succeed", "LZ4_compress_fast", LZ4_MAX_INPUT_SIZE, r);
    { LZ4_stream_t* st = LZ4_createStream(); r = LZ4_compress_fast_extState_fastReset(st, src, dst, LZ4_MAX_INPUT_SIZE, bound, 1); n_calls++;
      if (r <= 0 || r > bound) fail_line("bound_should_succeed", "LZ4_compress_fast_extState_fastReset", LZ4_MAX_INPUT_SIZE, r); LZ4_freeStream(st); }
    r = LZ4_compress_default(src, dst, LZ4_MAX_INPUT_SIZE + 1, bound); n_calls++;
    if (r != 0) fail_line("bad_size_nonzero", "LZ4_compress_default", (long long)LZ4_MAX_INPUT_SIZE + 1, r);
    r = LZ4_compress_default(src, dst, -1, bound); n_calls++;
    if (r != 0) fail_line("bad_size_nonzero", "LZ4_compress_default", -1, r);
    /* HC: the mid (1-2), hash-chain (3-9) and optimal (10-12) parsers each have their own size guard */
    nl = thorough ? 6 : 4;
    for (i = 0; i < nl; i++) {
        char name[64]; snprintf(name, sizeof name, "LZ4_compress_HC_level%d", hcLevels[i]);
        r = LZ4_compress_HC(src, dst, LZ4_MAX_INPUT_SIZE, bound, hcLevels[i]); n_calls++;
        if (r <= 0 || r > bound) fail_line("bound_should_succeed", name, LZ4_MAX_INPUT_SIZE, r);
        r = LZ4_compress_HC(src, dst, LZ4_MAX_INPUT_SIZE + 1, bound, hcLevels[i]); n_calls++;
        if (r != 0) fail_line("bad_size_nonzero", name, (long long)LZ4_MAX_INPUT_SIZE + 1, r);
    }
    {   /* streaming and destSize entry points of the mid parser */
        LZ4_streamHC_t* hs = LZ4_createStreamHC(); int consumed = LZ4_MAX_INPUT_SIZE;
        LZ4_resetStreamHC_fast(hs, 2); r = LZ4_compress_HC_continue(hs, src, dst, LZ4_MAX_INPUT_SIZE, bound); n_calls++;
        if (r <= 0 || r > bound) fail_line("bound_should_succeed", "LZ4_compress_HC_continue_level2", LZ4_MAX_INPUT_SIZE, r);
        r = LZ4_compress_HC_destSize(hs, src, dst, &consumed, bound, 2); n_calls++;
        if (r <= 0 || r > bound || consumed != LZ4_MAX_INPUT_SIZE) fail_line("destsize_not_full_at_bound", "LZ4_compress_HC_destSize_level2", LZ4_MAX_INPUT_SIZE, r);
        LZ4_freeStreamHC(hs);
    }
    free(src); free(dst);
    harness_done();
    stat_u("calls", n_calls); stat_u("inputs_of_exactly_LZ4_MAX_INPUT_SIZE", n_calls - 2 - (u64)nl); stat_u("records", g_nrecords); stat_u("cfails", (u64)g_cfails);
    return g_cfails ? 1 : 0;
}
