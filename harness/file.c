/* lz4file API harness (C20): contents of every small length, block-size multiples +-1, several blocks; any sequence of write
 * sizes (incl. none) and of read sizes (incl. 1-byte reads); the file must hold exactly one valid frame (Lean judge, op 3) and
 * reading must return exactly the content and then 0.  usage: file <mode> <tier> <seed> <casefile> <crashfile> */
#define LZ4F_STATIC_LINKING_ONLY
#define LZ4_STATIC_LINKING_ONLY
#define LZ4_HC_STATIC_LINKING_ONLY
#define XXH_NAMESPACE LZ4_
#include "lz4.c"
#include "lz4hc.c"
#include "xxhash.c"
#include "life.h"
#include "lz4frame.c"
#define LIFE_PART2
#include "life.h"
#include "lz4file.c"
#include "gen.h"

static u64 n_calls, n_files, n_reads, n_short, n_linked_files;

/* one reading session on a file holding `fbytes`, recorded whole (op 14) for the Lean model of LZ4F_readOpen / LZ4F_read (Model/FileR.lean):
 * result of readOpen, then for every LZ4F_read the size asked and the value returned, and all bytes returned */
static u64 n_sessions, n_session_reads, n_session_errors;
static void read_session(const u8* fbytes, size_t fsz, int style, size_t hintN)
{
    FILE* fp = tmpfile(); LZ4_readFile_t* rd = NULL; rec_t t; size_t res; static u8 log[16 * 4096]; size_t nlog = 0; u8* all = xalloc(hintN + 70000 + 64); size_t got = 0; int i;
    if (!fp) { perror("tmpfile"); exit(3); }
    if (fsz && fwrite(fbytes, 1, fsz, fp) != fsz) { perror("fwrite"); exit(3); }
    rewind(fp);
    res = LZ4F_readOpen(&rd, fp); n_calls++;
    rec_begin(&t, 14); rec_bytes(&t, fbytes, fsz); rec_int(&t, LZ4F_isError(res) ? (long long)LZ4F_getErrorCode(res) : 0);
    if (!LZ4F_isError(res)) {
        for (i = 0; i < 4000; i++) {
            size_t want, k; u8* tmp; u64 w64, k64;
            switch (style == 0 ? 9 : rndn(6)) { case 0: want = 1; break; case 1: want = 1 + rndn(10); break; case 2: want = 65536; break; case 3: want = 0; break; case 9: want = hintN + 64; break; default: want = 1 + rndn(3000); }
            if (got + want > hintN + 70000) want = hintN + 70000 - got;
            tmp = xalloc(want);
            k = LZ4F_read(rd, tmp, want); n_calls++; n_session_reads++;
            w64 = want; k64 = LZ4F_isError(k) ? (0x8000000000000000ULL | (u64)LZ4F_getErrorCode(k)) : (u64)k;
            memcpy(log + nlog, &w64, 8); memcpy(log + nlog + 8, &k64, 8); nlog += 16;
            if (LZ4F_isError(k)) { n_session_errors++; free(tmp); break; }
            if (k <= want) { memcpy(all + got, tmp, k); got += k; }
            free(tmp);
            if ((k == 0 && want > 0) || got >= hintN + 70000) break;
        }
        LZ4F_readClose(rd);
    } else n_session_errors++;
    rec_bytes(&t, log, nlog); rec_bytes(&t, all, got); rec_write(&t); n_sessions++;
    free(all); fclose(fp);
}

static void one_case(const u8* content, size_t n, int thorough)
{
    u8* ops = xalloc(5 * (n + 2)); size_t nops = 0; LZ4F_preferences_t prefs; LZ4_writeFile_t* w = NULL; LZ4_readFile_t* rd = NULL; FILE* fp = tmpfile(); rec_t r; size_t pos = 0; size_t res; u8* filebytes; long fsz; int useNull = rndp(10);
    static const int levels[] = {0, 0, 1, 3, 9, 12, -2};
    memset(&prefs, 0, sizeof prefs);
    if (!useNull) { prefs.frameInfo.blockSizeID = (LZ4F_blockSizeID_t)(rndp(40) ? 0 : 4 + rndn(n > 300000 ? 4 : 2)); prefs.frameInfo.blockMode = (LZ4F_blockMode_t)rndn(2); prefs.frameInfo.contentChecksumFlag = (LZ4F_contentChecksum_t)rndn(2);
        prefs.frameInfo.blockChecksumFlag = (LZ4F_blockChecksum_t)rndn(2); prefs.frameInfo.contentSize = rndp(30) ? n : 0; prefs.compressionLevel = levels[rndn(7)]; prefs.autoFlush = rndp(30);
        prefs.frameInfo.dictID = rndp(35) ? 1 + rndn(0x7fffffff) : 0;   /* every header size 7..19 */ }
    rec_begin(&r, 3); rec_int(&r, 0);
    rec_int(&r, prefs.frameInfo.blockSizeID); rec_int(&r, prefs.frameInfo.blockMode); rec_int(&r, prefs.frameInfo.contentChecksumFlag); rec_int(&r, prefs.frameInfo.blockChecksumFlag);
    rec_int(&r, (long long)prefs.frameInfo.contentSize); rec_int(&r, prefs.frameInfo.dictID); rec_int(&r, prefs.compressionLevel); rec_int(&r, prefs.autoFlush); rec_int(&r, prefs.favorDecSpeed);
    rec_int(&r, 0); rec_int(&r, 0); rec_bytes(&r, content, n); rec_bytes(&r, NULL, 0);
    cur_set(&r);
    if (!fp) { perror("tmpfile"); exit(3); }
    g_life_n = 0; g_life_init_n = 0; g_life_on = 1;
    res = LZ4F_writeOpen(&w, fp, useNull ? NULL : &prefs); n_calls++;
    if (LZ4F_isError(res)) { c_fail(&r, "writeOpen_failed"); fclose(fp); free(ops); return; }
    while (pos < n) {   /* any sequence of write sizes */
        size_t chunk; u8* tmp;
        switch (rndn(6)) { case 0: chunk = 1; break; case 1: chunk = 1 + rndn(20); break; case 2: chunk = 65536 + rndn(3) - 1; break; case 3: chunk = n - pos; break; default: chunk = 1 + rndn(5000); }
        if (chunk > n - pos) chunk = n - pos;
        tmp = xalloc(chunk); memcpy(tmp, content + pos, chunk);
        res = LZ4F_write(w, tmp, chunk); n_calls++; free(tmp);
        if (LZ4F_isError(res) || res != chunk) { c_fail(&r, "write_failed"); break; }
        ops[nops] = 119; ops[nops+1] = (u8)chunk; ops[nops+2] = (u8)(chunk >> 8); ops[nops+3] = (u8)(chunk >> 16); ops[nops+4] = (u8)(chunk >> 24); nops += 5;
        pos += chunk;
    }
    res = LZ4F_writeClose(w); n_calls++; g_life_on = 0;
    if (LZ4F_isError(res)) c_fail(&r, "writeClose_failed");
    fflush(fp); fsz = ftell(fp); rewind(fp);
    filebytes = xalloc((size_t)fsz); if (fread(filebytes, 1, (size_t)fsz, fp) != (size_t)fsz) { perror("fread"); exit(3); }
    r.n -= 1; rec_bytes(&r, filebytes, (size_t)fsz); rec_bytes(&r, ops, nops);
    /* a linked-blocks file at a fast level: ALSO a record of kind 6 for the end-to-end model of linked-blocks frames (Model/FrameLinked.lean), with the
     * schedule logged by the interposed LZ4 calls */
    if (pos == n && !LZ4F_isError(res) && prefs.frameInfo.blockMode == LZ4F_blockLinked && prefs.compressionLevel < LZ4HC_CLEVEL_MIN && n <= 300000) {
        rec_t k6 = r; u32 qi; for (qi = 0; qi < r.n; qi++) if (r.p[qi] == &r.ints[qi]) k6.p[qi] = &k6.ints[qi];
        k6.ints[0] = 6; k6.n -= 1; rec_bytes(&k6, g_life, g_life_n); rec_bytes(&k6, g_life_init, g_life_init_n); rec_write(&k6); n_linked_files++; }
    n_files++; if (fsz < 19) n_short++;
    /* read back with any sequence of read sizes */
    {   int rep, nrep = thorough ? 3 : 2;
        for (rep = 0; rep < nrep; rep++) {
            u8* out = xalloc(n + 64); size_t got = 0; int bad = 0;
            rewind(fp); rd = NULL;
            res = LZ4F_readOpen(&rd, fp); n_calls++;
            if (LZ4F_isError(res)) { c_fail(&r, "readOpen_failed"); free(out); continue; }
            for (;;) {
                size_t want; u8* tmp; size_t k;
                switch (rep == 0 ? 9 : rndn(5)) { case 0: want = 1; break; case 1: want = 1 + rndn(10); break; case 2: want = 65536; break; case 9: want = n + 64; break; default: want = 1 + rndn(3000); }
                tmp = xalloc(want);
                k = LZ4F_read(rd, tmp, want); n_calls++; n_reads++;
                if (LZ4F_isError(k)) { c_fail(&r, "read_returned_error"); bad = 1; free(tmp); break; }
                if (k > want || got + k > n + 64) { c_fail(&r, "read_returned_too_much"); bad = 1; free(tmp); break; }
                memcpy(out + got, tmp, k); got += k; free(tmp);
                if (k == 0) break;
                if (got > n) { c_fail(&r, "read_returned_more_than_content"); bad = 1; break; }
            }
            if (!bad && (got != n || (n && memcmp(out, content, n) != 0))) c_fail(&r, "read_content_mismatch");
            if (!bad) { u8 t2[8]; size_t k = LZ4F_read(rd, t2, 8); if (k != 0) c_fail(&r, "read_after_end_not_zero"); }
            LZ4F_readClose(rd); free(out);
        }
    }
    cur_clear(); rec_write(&r);
    if ((size_t)fsz <= 300000) {   /* sessions replayed by the Lean model of the read side: the file itself, a truncated copy, a corrupted copy */
        read_session(filebytes, (size_t)fsz, 0, n); read_session(filebytes, (size_t)fsz, 1, n);
        if (fsz > 0) { size_t cut = rndn((u32)fsz); read_session(filebytes, cut, 1, n); }
        if (fsz > 0) { u8* m = xalloc((size_t)fsz); memcpy(m, filebytes, (size_t)fsz); m[rndn((u32)fsz)] ^= (u8)(1u << rndn(8)); read_session(m, (size_t)fsz, (int)rndn(2), n); free(m); }
    }
    free(filebytes); free(ops); fclose(fp);
}

int main(int argc, char** argv)
{
    const char* mode; int thorough, i; u64 seed; u8* data; size_t maxn; size_t n;
    if (argc < 6) { fprintf(stderr, "usage: file mode tier seed casefile crashfile\n"); return 2; }
    mode = argv[1]; thorough = !strcmp(argv[2], "thorough"); seed = strtoull(argv[3], 0, 10); (void)mode;
    harness_init(argv[4], argv[5], seed);
    maxn = thorough ? (5u << 20) : (300u << 10); data = xalloc(maxn + 16);
    for (n = 0; n <= 40; n++) { int rep; for (rep = 0; rep < (thorough ? 8 : 3); rep++) { gen_data(data, n, (int)rndn(D_KINDS)); one_case(data, n, thorough); } }
    {   static const size_t around[] = {65535, 65536, 65537, 131072, 131073, 262143, 262144, 262145};
        for (i = 0; i < 8; i++) { gen_data(data, around[i], (int)rndn(D_KINDS)); one_case(data, around[i], thorough); } }
    for (i = 0; i < (thorough ? SH(1500) : 60); i++) { n = rndp(50) ? rndn(3000) : rndn((u32)maxn); gen_data(data, n, (int)rndn(D_KINDS)); one_case(data, n, thorough); }
    harness_done();
    stat_u("calls", n_calls); stat_u("files", n_files); stat_u("linked_files_for_end_to_end_model", n_linked_files); stat_u("reads", n_reads); stat_u("files_shorter_than_max_header", n_short); stat_u("read_sessions_for_the_model", n_sessions); stat_u("read_session_calls", n_session_reads); stat_u("read_sessions_ending_in_error", n_session_errors); stat_u("records", g_nrecords); stat_u("cfails", (u64)g_cfails);
    free(data);
    return g_cfails ? 1 : 0;
}
