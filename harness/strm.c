/* Streaming / dictionary / context-reuse harness (C11, C12, C17-continuation, C18): histories of API-legal operations on ONE
 * LZ4_stream_t or LZ4_streamHC_t, sources laid out in several geometries, every produced block decoded
 *  (a) by the real decoder given the logical history as an explicit dictionary,
 *  (b) by a mirror LZ4_decompress_safe_continue stream in a ring buffer of exactly LZ4_decoderRingBufferSize bytes (C11),
 *  (c) by the Lean judge with the specification decoder (record op 6: hist, src, block).
 * usage: strm <mode> <tier> <seed> <casefile> <crashfile>      modes: c11 c12 c17 c18
 */
#define LZ4_STATIC_LINKING_ONLY
#define LZ4_HC_STATIC_LINKING_ONLY
#include "lz4.c"
#include "lz4hc.c"
#include "gen.h"

enum { OP_STREAMBLOCK = 6 };
#define MAXBLOCK 70000
#define ARENA (8u << 20)

static u64 n_calls, n_blocks, n_fail_ret0, n_saves, n_loads, n_attach, n_resets, n_oneshots, n_destsize, n_wraps, n_renorm, op_hist[16];

/* logical history the decoder is entitled to: last <= 64 KB of (dictionary ++ blocks since the last reset/load) */
static u8* g_hist; static size_t g_histSize;
static void hist_reset(void) { g_histSize = 0; }
static void hist_append(const u8* p, size_t n)
{
    if (n >= 65536) { memcpy(g_hist, p + n - 65536, 65536); g_histSize = 65536; return; }
    if (g_histSize + n > 65536) { size_t drop = g_histSize + n - 65536; memmove(g_hist, g_hist + drop, g_histSize - drop); g_histSize -= drop; }
    memcpy(g_hist + g_histSize, p, n); g_histSize += n;
}

/* mirror decoder for C11: safe_continue into a ring buffer of exactly LZ4_decoderRingBufferSize(MAXBLOCK) bytes */
static LZ4_streamDecode_t g_sd; static u8* g_ring; static size_t g_ringSize, g_ringPos; static int g_mirrorValid;
static void mirror_reset(const u8* dict, size_t dictSize)
{
    /* documented: LZ4_setStreamDecode with the dictionary (kept in its own buffer) */
    static u8* keep = NULL; if (!keep) keep = xalloc(65536);
    if (dictSize > 65536) { dict += dictSize - 65536; dictSize = 65536; }
    if (dictSize) memcpy(keep, dict, dictSize);
    LZ4_setStreamDecode(&g_sd, (const char*)keep, (int)dictSize); g_ringPos = 0; g_mirrorValid = 1;
}

static void check_block(int family, int level, const u8* src, size_t n, const u8* blk, int csize, int what)
{
    rec_t r; u8* out; int d;
    rec_begin(&r, OP_STREAMBLOCK); rec_int(&r, family); rec_int(&r, level); rec_int(&r, what); rec_bytes(&r, g_hist, g_histSize); rec_bytes(&r, src, n); rec_bytes(&r, blk, (size_t)csize);
    /* (a) explicit dictionary = logical history, exact-size output */
    out = xalloc(n);
    {   u8* hcopy = xalloc(g_histSize); u8* bcopy = xalloc((size_t)csize); memcpy(hcopy, g_hist, g_histSize); memcpy(bcopy, blk, (size_t)csize);
        d = LZ4_decompress_safe_usingDict((const char*)bcopy, (char*)out, csize, (int)n, (const char*)hcopy, (int)g_histSize);
        if (d != (int)n || (n && memcmp(out, src, n) != 0)) c_fail(&r, "block_does_not_decode_against_history");
        free(hcopy); free(bcopy); }
    free(out);
    /* (b) mirror ring decoder */
    if (g_mirrorValid && n <= MAXBLOCK) {
        if (g_ringSize - g_ringPos < MAXBLOCK) { g_ringPos = 0; n_wraps++; }
        d = LZ4_decompress_safe_continue(&g_sd, (const char*)blk, (char*)g_ring + g_ringPos, csize, MAXBLOCK);
        if (d != (int)n || (n && memcmp(g_ring + g_ringPos, src, n) != 0)) { c_fail(&r, "ring_decoder_mismatch"); g_mirrorValid = 0; }
        else g_ringPos += n;
    } else g_mirrorValid = 0;
    rec_write(&r); n_blocks++;
}

/* ---------- source placement geometries ---------- */
typedef struct { u8* arena; size_t size, pos; int kind; /* 0 contiguous, 1 ring, 2 double buffer, 3 scattered */ size_t ringSize; int flip; size_t ra[8], rn[8]; int rk; } geom_t;
static u8* place(geom_t* g, size_t n)
{
    u8* p;
    switch (g->kind) {
    default:
    case 0: if (g->pos + n > g->size) g->pos = 0; p = g->arena + g->pos; g->pos += n; return p;
    case 1: if (g->pos + n > g->ringSize) { g->pos = 0; n_wraps++; } p = g->arena + g->pos; g->pos += n; return p;
    case 2: g->flip ^= 1; return g->arena + (g->flip ? 0 : MAXBLOCK + 64);
    case 3: { size_t at; int k, clash;   /* scattered, never on top of the regions that may still be history */
        do { at = rndn((u32)(g->size - n - 1)); clash = 0; for (k = 0; k < 8; k++) if (g->rn[k] && at < g->ra[k] + g->rn[k] && g->ra[k] < at + n + 1) clash = 1; } while (clash);
        g->ra[g->rk % 8] = at; g->rn[g->rk % 8] = n + 1; g->rk++; g->pos = at + n; return g->arena + at; }
    }
}

static void fill_block(u8* p, size_t n, const u8* recent, size_t recentSize, const u8* dict, size_t dictSize)
{
    /* content that shares material with the recent history and with every third of the dictionary */
    size_t i = 0;
    if (n > 40 && rndp(20)) {   /* open the block with the very first bytes of the window the compressor can see (distance exactly 64 KB) */
        if (recentSize >= 65536) { i = 20 + rndn(20); memcpy(p, recent + recentSize - 65536, i); }
        else if (recentSize > 40) { i = 20 + rndn(20); memcpy(p, recent, i); } }
    while (i < n) {
        int c = (int)rndn(10); size_t l = 4 + rndn(rndp(10) ? 600 : 60); if (l > n - i) l = n - i;
        if (c < 3 && recentSize > 8) { size_t at = rndn((u32)(recentSize - 4)); if (l > recentSize - at) l = recentSize - at; memcpy(p + i, recent + at, l); }
        else if (c < 6 && dictSize > 8) { size_t third = dictSize / 3, at = rndn(3) * third + rndn((u32)(third ? third : 1)); if (at + l > dictSize) l = dictSize - at; if (!l) l = 1, p[i] = 0; else memcpy(p + i, dict + at, l); }
        else if (c < 8 && i > 8) { size_t d = 1 + rndn((u32)(i < 70000 ? i : 70000)); size_t k; for (k = 0; k < l; k++) p[i + k] = p[i + k - d]; }
        else { size_t k; for (k = 0; k < l; k++) p[i + k] = (u8)rnd(); }
        i += l;
    }
}

static size_t pick_bsize(void) { switch (rndn(9)) { case 0: return 0; case 1: return 1 + rndn(12); case 2: return 13 + rndn(50); case 3: return 4090 + rndn(12); case 4: return 65530 + rndn(12); case 5: return rndn(MAXBLOCK); default: return rndn(6000); } }

static int g_trace = 0;
#define TR(...) do { if (g_trace) { printf(__VA_ARGS__); putchar(10); } } while (0)
static void run_history(int family /*0 fast,1 HC*/, int nops, const char* mode, u8* dictbuf)
{
    LZ4_stream_t* fs = LZ4_createStream(); LZ4_streamHC_t* hs = LZ4_createStreamHC(); LZ4_stream_t* dictFs = LZ4_createStream(); LZ4_streamHC_t* dictHs = LZ4_createStreamHC();
    geom_t g; u8* safe = xalloc(65536 + MAXBLOCK + 8); long afterSaved = -1; u8* dst = xalloc((size_t)LZ4_compressBound(MAXBLOCK) + 64); int level = 9; int i; const u8* lastSrc = NULL; size_t lastN = 0;
    u8* dictCopyBefore = NULL; size_t attachedDictSize = 0; int attached = 0;
    int c18 = !strcmp(mode, "c18"), c12 = !strcmp(mode, "c12"), c17 = !strcmp(mode, "c17");
    memset(&g, 0, sizeof g); g.arena = xalloc(ARENA); g.size = ARENA; g.kind = c18 ? 3 : (int)rndn(4); g.ringSize = 2 * MAXBLOCK + rndn(3 * MAXBLOCK);
    if (g.kind == 1) { gen_data(g.arena, g.ringSize, D_LZLIKE); g.pos = rndp(60) ? rndn(30000) : 0; }   /* the stream need not start at the beginning of the ring */
    hist_reset(); mirror_reset(NULL, 0);
    if (family == 1) { level = (int[]){1,2,3,4,6,9,10,12}[rndn(8)]; LZ4_resetStreamHC_fast(hs, level); }
    TR("=== history family=%d geom=%d ring=%zu", family, g.kind, g.ringSize);
    for (i = 0; i < nops; i++) {
        int op = (int)rndn(100); size_t n = pick_bsize(); u8* src;
        if (c17 && family == 1) op = (op < 55) ? 99 : (op < 90 ? 5 : 61);     /* mostly continue_destSize / continue chains, some saveDict */
        if (op < 60 || (c17 && op == 5)) {
            /* ---- continue ---- */
            int acc = (int[]){1,1,1,2,8,65537,0}[rndn(7)]; int cap, r;
            if (g.kind == 2 && n > MAXBLOCK) n = MAXBLOCK;
            src = place(&g, n);
            if (afterSaved >= 0 && n <= MAXBLOCK && rndp(60)) src = safe + afterSaved;   /* next block right after the bytes LZ4_saveDict[HC] kept */
            afterSaved = -1;
            if (g.kind == 1 && src != safe + 0 && src >= g.arena && src < g.arena + g.size && rndp(45)) { size_t k; for (k = 0; k < n; k++) if (rndn(40) == 0) src[k] = (u8)rnd(); }   /* ring: a revised version of what was at this address a lap ago */
            else fill_block(src, n, g_hist, g_histSize, dictbuf, 70000);
            cap = rndp(80) ? LZ4_compressBound((int)n) : (int)rndn((u32)LZ4_compressBound((int)n) + 1);
            if (family == 1 && rndp(15)) { level = (int[]){1,2,3,5,9,10,11,12}[rndn(8)]; LZ4_setCompressionLevel(hs, level); if (rndp(50)) LZ4_favorDecompressionSpeed(hs, rndp(50)); }
            r = family == 0 ? LZ4_compress_fast_continue(fs, (const char*)src, (char*)dst, (int)n, cap, acc) : LZ4_compress_HC_continue(hs, (const char*)src, (char*)dst, (int)n, cap);
            TR("continue fam=%d level=%d src=+%zu n=%zu cap=%d -> %d  geom=%d", family, level, (size_t)(src - g.arena), n, cap, r, g.kind);
            n_calls++; op_hist[0]++;
            if (r > 0) { check_block(family, level, src, n, dst, r, 0); hist_append(src, n); lastSrc = src; lastN = n; }
            else {
                n_fail_ret0++;
                if (cap >= LZ4_compressBound((int)n)) { rec_t rr; rec_begin(&rr, OP_STREAMBLOCK); c_fail(&rr, "continue_failed_at_bound"); }
                /* a failed limited-output call: HC marks the stream dirty (must be reset); the fast stream stays usable, its history now includes this block */
                if (family == 1) { LZ4_resetStreamHC_fast(hs, level); hist_reset(); mirror_reset(NULL, 0); n_resets++; }
                else { hist_append(src, n); g_mirrorValid = 0; lastSrc = src; lastN = n; }
            }
            if (attached) {   /* the attached dictionary stream must not have been modified (C12) */
                if (memcmp(dictCopyBefore, family == 0 ? (void*)dictFs : (void*)dictHs, family == 0 ? sizeof(LZ4_stream_t) : sizeof(LZ4_streamHC_t)) != 0) { rec_t rr; rec_begin(&rr, OP_STREAMBLOCK); c_fail(&rr, "attached_dictionary_stream_modified"); }
                attached = 0;
            }
        } else if (op < 68) {
            /* ---- saveDict: relocate history into a safe buffer ---- */
            int want = (int[]){0, 3, 4, 100, 65535, 65536, 70000}[rndn(7)]; int got;
            got = family == 0 ? LZ4_saveDict(fs, (char*)safe, want) : LZ4_saveDictHC(hs, (char*)safe, want);
            TR("saveDict want=%d got=%d", want, got);
            n_calls++; n_saves++; op_hist[1]++;
            if (got < 0 || got > want || got > 65536) { rec_t rr; rec_begin(&rr, OP_STREAMBLOCK); c_fail(&rr, "saveDict_bad_return"); }
            else afterSaved = got;
            /* history may shrink to `got` bytes: the decoder still holds the full logical history (a superset) */
            /* after saving, the old location may be overwritten - unless the last block itself lived in the safe buffer (placed right after an earlier save):
             * then its old location overlaps the bytes just saved, which the caller must of course leave alone */
            if (g.kind == 3 || g.kind == 0) { if (lastSrc && !(lastSrc >= safe && lastSrc < safe + 65536 + MAXBLOCK + 8) && rndp(50)) memset((void*)lastSrc, 0xEE, lastN); }
        } else if (op < 76 && !c17) {
            afterSaved = -1;
            /* ---- loadDict (fast: loadDict / loadDictSlow; HC: loadDictHC) ---- */
            static const size_t ds[] = {0, 1, 3, 4, 7, 8, 100, 65535, 65536, 70000}; size_t d = ds[rndn(10)]; const u8* dict = dictbuf + (70000 - d);
            if (family == 0) { if (rndp(50)) LZ4_loadDict(fs, (const char*)dict, (int)d); else LZ4_loadDictSlow(fs, (const char*)dict, (int)d); }
            else { LZ4_resetStreamHC_fast(hs, level); LZ4_loadDictHC(hs, (const char*)dict, (int)d); }
            TR("loadDict d=%zu", d);
            n_calls++; n_loads++; op_hist[2]++;
            hist_reset(); hist_append(dict, d); mirror_reset(dict, d);
        } else if (op < 84 && !c17) {
            afterSaved = -1;
            /* ---- attach a prepared dictionary stream (after the documented reset) ---- */
            static const size_t ds[] = {0, 4, 8, 100, 4000, 65536, 70000}; size_t d = ds[rndn(7)]; const u8* dict = dictbuf + (70000 - d);
            if (family == 0) { LZ4_loadDict(dictFs, (const char*)dict, (int)d); LZ4_resetStream_fast(fs); LZ4_attach_dictionary(fs, dictFs); free(dictCopyBefore); dictCopyBefore = xalloc(sizeof(LZ4_stream_t)); memcpy(dictCopyBefore, dictFs, sizeof(LZ4_stream_t)); }
            else { int dl = (int[]){2, 3, 9, 10, 12}[rndn(5)]; LZ4_resetStreamHC_fast(dictHs, dl); LZ4_loadDictHC(dictHs, (const char*)dict, (int)d); LZ4_resetStreamHC_fast(hs, level); LZ4_attach_HC_dictionary(hs, dictHs);
                   free(dictCopyBefore); dictCopyBefore = xalloc(sizeof(LZ4_streamHC_t)); memcpy(dictCopyBefore, dictHs, sizeof(LZ4_streamHC_t)); }
            attached = 1; attachedDictSize = d; (void)attachedDictSize;
            TR("attach d=%zu", d);
            n_calls++; n_attach++; op_hist[3]++;
            hist_reset(); hist_append(dict, d > 65536 ? 65536 : d); if (d > 65536) { hist_reset(); hist_append(dict + d - 65536, 65536); } mirror_reset(dict, d);
        } else if (op < 90 && !c17) {
            afterSaved = -1;
            /* ---- documented reset ---- */
            if (family == 0) LZ4_resetStream_fast(fs); else LZ4_resetStreamHC_fast(hs, level);
            TR("reset"); n_calls++; n_resets++; op_hist[4]++; hist_reset(); mirror_reset(NULL, 0); attached = 0;
        } else if (op < 96 && !c17) {
            afterSaved = -1;
            /* ---- one-shot fast-reset compressions on the same state (C18): each output decodes with NO history.
             *      A burst of small records laid out contiguously, with no other call in between, is the classic reuse pattern. ---- */
            int reps = rndp(50) ? 1 : 2 + (int)rndn(7); int k; u8* base; size_t off = 0; static const size_t ns[] = {0, 12, 13, 100, 1000, 4095, 4096, 4097, 65546, 65547, 65548, 69000};
            int smallBurst = reps > 1;
            base = place(&g, (size_t)reps * (smallBurst ? 4100 : 69000));
            for (k = 0; k < reps; k++) {
                int cap, r; n = smallBurst ? (rndp(30) ? ns[rndn(6)] : 1 + rndn(4095)) : ns[rndn(12)];
                src = base + off; off += n;
                fill_block(src, n, k ? base : g_hist, k ? off - n : g_histSize, dictbuf, 70000);
                cap = rndp(75) ? LZ4_compressBound((int)n) : (int)rndn((u32)LZ4_compressBound((int)n) + 1);
                r = family == 0 ? LZ4_compress_fast_extState_fastReset(fs, (const char*)src, (char*)dst, (int)n, cap, 1 + (int)rndn(3)) : LZ4_compress_HC_extStateHC_fastReset(hs, (const char*)src, (char*)dst, (int)n, cap, level);
                TR("oneshot n=%zu cap=%d -> %d", n, cap, r);
                n_calls++; n_oneshots++; op_hist[5]++;
                g_histSize = 0; g_mirrorValid = 0;
                if (r > 0) check_block(family, level, src, n, dst, r, 1);
                else if (cap >= LZ4_compressBound((int)n)) { rec_t rr; rec_begin(&rr, OP_STREAMBLOCK); c_fail(&rr, "fastReset_failed_at_bound"); }
            }
            /* afterwards the stream is used again only after the documented reset */
            if (family == 0) LZ4_resetStream_fast(fs); else LZ4_resetStreamHC_fast(hs, level);
            hist_reset(); mirror_reset(NULL, 0); attached = 0;
        } else if (family == 1) {
            afterSaved = -1;
            /* ---- HC continue_destSize, then continue from the first unconsumed byte (C17) ---- */
            int target, r, consumed; size_t offered = 2000 + rndn(60000);
            if (g.kind == 1 || g.kind == 2) { g.kind = 0; g.pos = 6 * MAXBLOCK; }   /* the offered region is larger than a ring slot / double buffer: continue contiguously elsewhere */
            src = place(&g, offered + 20000);
            fill_block(src, offered + 20000, g_hist, g_histSize, dictbuf, 70000);
            /* plant "future repeats": content right after a likely stopping point also occurs further on in the offered region */
            { size_t a = rndn((u32)(offered / 2)), b2 = offered / 2 + rndn((u32)(offered / 2)), l = 200 + rndn(3000); if (b2 + l <= offered + 20000 && a + l <= b2) memcpy(src + a, src + b2, l); }
            target = rndp(70) ? 1 + (int)rndn(6000) : LZ4_compressBound((int)offered);
            consumed = (int)offered;
            r = LZ4_compress_HC_continue_destSize(hs, (const char*)src, (char*)dst, &consumed, target);
            TR("destSize offered=%zu target=%d -> r=%d consumed=%d", offered, target, r, consumed);
            n_calls++; n_destsize++; op_hist[6]++;
            if (r < 1 || r > target || consumed < 0 || (size_t)consumed > offered) { rec_t rr; rec_begin(&rr, OP_STREAMBLOCK); c_fail(&rr, "continue_destSize_contract"); LZ4_resetStreamHC_fast(hs, level); hist_reset(); mirror_reset(NULL, 0); }
            else {
                check_block(family, level, src, (size_t)consumed, dst, r, 2); hist_append(src, (size_t)consumed);
                if (target >= LZ4_compressBound((int)offered) && (size_t)consumed != offered) { rec_t rr; rec_begin(&rr, OP_STREAMBLOCK); c_fail(&rr, "continue_destSize_not_full_at_bound"); }
                /* continue right at the first unconsumed byte */
                {   size_t n2 = 1000 + rndn(8000); int r2; if ((size_t)consumed + n2 > offered + 20000) n2 = offered + 20000 - (size_t)consumed;
                    r2 = LZ4_compress_HC_continue(hs, (const char*)src + consumed, (char*)dst, (int)n2, LZ4_compressBound((int)n2)); n_calls++;
                    if (r2 <= 0) { rec_t rr; rec_begin(&rr, OP_STREAMBLOCK); c_fail(&rr, "continue_after_destSize_failed"); LZ4_resetStreamHC_fast(hs, level); hist_reset(); mirror_reset(NULL, 0); }
                    else { check_block(family, level, src + consumed, n2, dst, r2, 3); hist_append(src + consumed, n2); lastSrc = src + consumed; lastN = n2; g.pos = (size_t)(src - g.arena) + (size_t)consumed + n2; if (g.kind == 2) g.kind = 0; }
                }
            }
        }
    }
    LZ4_freeStream(fs); LZ4_freeStreamHC(hs); LZ4_freeStream(dictFs); LZ4_freeStreamHC(dictHs); free(g.arena); free(safe); free(dst); free(dictCopyBefore);
    (void)c12;
}

/* Record-structured data in a compressor-side ring whose stream is (re)started at a position s0 > 0: the first wrapping block starts
 * below the oldest history byte and overwrites its head.  Records are fixed-size (key + payload), so a lap later the same keys sit at the
 * same ring addresses with different payloads: the layout in which a history that was not trimmed shows up as wrong bytes. */
/* One stream fed more than 2^31 bytes (LZ4_renormDictT): phase 1 pushes ~2 GB of cheap, very compressible blocks through the stream (not decoded);
 * phase 2 crosses 2^31 with 256 KB blocks in a double buffer (so the history the stream knows is > 64 KB when the indexes are renormalised).
 * Block layout: [64 KB table: fixed keys + FIXED values][128 KB filler][64 KB table: same keys at the same places + FRESH values], so that a history
 * mapped 192 KB too low still matches (same keys, same fixed values) but the bytes really referenced differ.  Every phase-2 block is decoded with the
 * real decoder against the previous block (its declared history). */
static u64 n_xs_hist, n_xs_renorm, n_hc_wraps;
static void long_stream_renorm_scenario_x(int withResets);
static void long_stream_renorm_scenario(void) { long_stream_renorm_scenario_x(0); }
/* withResets: the first gigabyte of index is accumulated by many short sessions separated by LZ4_resetStream_fast (the index survives a fast reset while it is
 * below 1 GB), the second by one long session: the history of reuse that brings a long-lived context to the 2 GB index rescale */
static void long_stream_renorm_scenario_x(int withResets)
{
    enum { BIG = 4 << 20, BS = 256 << 10, TBL = 64 << 10, RECS = 2048 };
    LZ4_stream_t* fs = LZ4_createStream(); u8* big[2]; u8* blk[2]; u8* dst = xalloc((size_t)LZ4_compressBound(BIG)); u8* out = xalloc(BS);
    static u8 keys[RECS][8], fixedv[RECS][24]; unsigned long long fed = 0; int b, i, k, turn = 0; rec_t r;
    rec_t xr; int xr_on = 0, xr_done = 0, xr_n = 0; u8* xr_tb = NULL; u8* xr_dict = NULL; u8* xr_keep[16];
    for (i = 0; i < RECS; i++) { for (k = 0; k < 8; k++) keys[i][k] = (u8)rnd(); for (k = 0; k < 24; k++) fixedv[i][k] = (u8)rnd(); }
    for (b = 0; b < 2; b++) { big[b] = xalloc(BIG); for (i = 0; i < BIG; i++) big[b][i] = (u8)("abcdefgh"[(i + b) & 7]); blk[b] = xalloc(BS); }
    while (fed + BIG < 0x80000000ULL - (3u << 20)) {
        int c;
        if (withResets && fed < (1000u << 20) && (fed / BIG) % 4 == 3) { LZ4_resetStream_fast(fs); n_resets++; fed += 65536; }   /* a fast reset advances the index by 64 KB */
        c = LZ4_compress_fast_continue(fs, (const char*)big[turn], (char*)dst, BIG, LZ4_compressBound(BIG), 1); n_calls++; if (c <= 0) break; fed += BIG; turn ^= 1; }
    for (b = 0; b < 28; b++) {
        u8* cur = blk[b & 1]; const u8* prev = blk[(b & 1) ^ 1]; int c, d;
        /* three blocks before the index rescale: dump the real state (table, currentOffset, dictionary address and bytes); the blocks from here on are
         * ALSO recorded as a stream life (op 16) that the model replays from that state, byte for byte, THROUGH LZ4_renormDictT */
        { const LZ4_stream_t_internal* in = &fs->internal_donotuse;
          if (!xr_on && !xr_done && (unsigned long long)in->currentOffset + 3ull * BS > 0x80000000ULL) {
              xr_tb = xalloc(4 * LZ4_HASH_SIZE_U32); for (i = 0; i < LZ4_HASH_SIZE_U32; i++) { u32 v = in->hashTable[i]; xr_tb[4*i] = (u8)v; xr_tb[4*i+1] = (u8)(v >> 8); xr_tb[4*i+2] = (u8)(v >> 16); xr_tb[4*i+3] = (u8)(v >> 24); }
              xr_dict = xalloc(in->dictSize + 1); memcpy(xr_dict, in->dictionary, in->dictSize);
              rec_begin(&xr, 16); rec_int(&xr, 0); rec_bytes(&xr, xr_tb, 4 * LZ4_HASH_SIZE_U32); rec_int(&xr, (long long)in->currentOffset); rec_int(&xr, (long long)(size_t)in->dictionary); rec_bytes(&xr, xr_dict, in->dictSize); rec_int(&xr, 1);
              xr_on = 1; } }
        for (i = 0; i < RECS; i++) { int q = (i + b) % RECS; memcpy(cur + 32 * i, keys[q], 8); memcpy(cur + 32 * i + 8, fixedv[q], 24); }   /* scrolled by one record per block: the previous block's copy is < 64 KB away */
        for (i = TBL; i < BS - TBL; i++) cur[i] = (u8)("ACGT"[rnd() & 3]);
        for (i = 0; i < RECS; i++) { memcpy(cur + (BS - TBL) + 32 * i, keys[(i + b) % RECS], 8); for (k = 0; k < 24; k++) cur[(BS - TBL) + 32 * i + 8 + k] = (u8)rnd(); }
        rec_begin(&r, OP_STREAMBLOCK); cur_set(&r);
        c = LZ4_compress_fast_continue(fs, (const char*)cur, (char*)dst, BS, LZ4_compressBound(BS), 1); n_calls++;
        if (fed < 0x80000000ULL && fed + BS >= 0x80000000ULL) n_renorm++;
        fed += BS;
        if (xr_on && xr_n < 8 && c > 0) { u8* cd = xalloc(BS); u8* co = xalloc((size_t)c); memcpy(cd, cur, BS); memcpy(co, dst, (size_t)c); xr_keep[2 * xr_n] = cd; xr_keep[2 * xr_n + 1] = co; xr_n++;
            rec_int(&xr, 0); rec_int(&xr, (long long)(size_t)cur); rec_bytes(&xr, cd, BS); rec_int(&xr, 1); rec_int(&xr, LZ4_compressBound(BS)); rec_int(&xr, c); rec_bytes(&xr, co, (size_t)c);
            if (xr_n == 8) { xr.ints[0] = 8; rec_write(&xr); n_xs_hist++; n_xs_renorm++; xr_on = 0; xr_done = 1; } }
        if (c <= 0) { c_fail(&r, "continue_failed_at_bound"); break; }
        d = b == 0 ? LZ4_decompress_safe_usingDict((const char*)dst, (char*)out, c, BS, (const char*)big[turn ^ 1], BIG)
                   : LZ4_decompress_safe_usingDict((const char*)dst, (char*)out, c, BS, (const char*)prev, BS);
        n_blocks++;
        if (d != BS || memcmp(out, cur, BS) != 0) { c_fail(&r, "block_does_not_decode_against_history"); break; }
        cur_clear();
    }
    for (i = 0; i < 2 * xr_n; i++) free(xr_keep[i]);
    free(xr_tb); free(xr_dict);
    LZ4_freeStream(fs); free(big[0]); free(big[1]); free(blk[0]); free(blk[1]); free(dst); free(out);
}

/* The same for the HC stream (the "Check overflow" branch of LZ4_compressHC_continue_generic, taken once the stream index passes 2 GB: the stream is
 * re-based on the last 64 KB of its prefix).  Phase 2 lays its 256 KB blocks CONTIGUOUSLY, so the prefix is several MB when the limit is crossed
 * and "the last 64 KB" differs from any other part of it; every block is decoded in prefix mode against the 64 KB in front of it. */
static void long_stream_renorm_scenario_hc(int level)
{
    enum { BIG = 4 << 20, BS = 256 << 10, TBL = 64 << 10, RECS = 2048, NB = 24 };
    LZ4_streamHC_t* hs = LZ4_createStreamHC(); u8* big[2]; u8* arena = xalloc((size_t)NB * BS); u8* oar = xalloc((size_t)NB * BS); u8* dst = xalloc((size_t)LZ4_compressBound(BIG));
    static u8 keys[RECS][8], fixedv[RECS][24]; unsigned long long fed = 0; int b, i, k, turn = 0; rec_t r;
    for (i = 0; i < RECS; i++) { for (k = 0; k < 8; k++) keys[i][k] = (u8)rnd(); for (k = 0; k < 24; k++) fixedv[i][k] = (u8)rnd(); }
    for (b = 0; b < 2; b++) { big[b] = xalloc(BIG); for (i = 0; i < BIG; i++) big[b][i] = (u8)("abcdefgh"[(i + b) & 7]); }
    LZ4_resetStreamHC_fast(hs, level);
    while (fed + BIG < 0x80000000ULL - (3u << 20)) { int c = LZ4_compress_HC_continue(hs, (const char*)big[turn], (char*)dst, BIG, LZ4_compressBound(BIG)); n_calls++; if (c <= 0) break; fed += BIG; turn ^= 1; }
    for (b = 0; b < NB; b++) {
        u8* cur = arena + (size_t)b * BS; int c, d; size_t hsz = b == 0 ? 0 : ((size_t)b * BS < 65536 ? (size_t)b * BS : 65536);
        for (i = 0; i < RECS; i++) { int q = (i + b) % RECS; memcpy(cur + 32 * i, keys[q], 8); memcpy(cur + 32 * i + 8, fixedv[q], 24); }
        for (i = TBL; i < BS - TBL; i++) cur[i] = (u8)("ACGT"[rnd() & 3]);
        for (i = 0; i < RECS; i++) { memcpy(cur + (BS - TBL) + 32 * i, keys[(i + b) % RECS], 8); for (k = 0; k < 24; k++) cur[(BS - TBL) + 32 * i + 8 + k] = (u8)rnd(); }
        rec_begin(&r, OP_STREAMBLOCK); cur_set(&r);
        c = LZ4_compress_HC_continue(hs, (const char*)cur, (char*)dst, BS, LZ4_compressBound(BS)); n_calls++;
        if (fed < 0x80000000ULL && fed + BS >= 0x80000000ULL) n_renorm++;
        fed += BS;
        if (c <= 0) { c_fail(&r, "continue_failed_at_bound"); break; }
        d = b == 0 ? LZ4_decompress_safe_usingDict((const char*)dst, (char*)oar, c, BS, (const char*)big[turn ^ 1], BIG)
                   : LZ4_decompress_safe_usingDict((const char*)dst, (char*)(oar + (size_t)b * BS), c, BS, (const char*)(oar + (size_t)b * BS - hsz), (int)hsz);
        n_blocks++;
        if (d != BS || memcmp(oar + (size_t)b * BS, cur, BS) != 0) { c_fail(&r, "block_does_not_decode_against_history"); break; }
        cur_clear();
    }
    LZ4_freeStreamHC(hs); free(big[0]); free(big[1]); free(arena); free(oar); free(dst);
}

/* ---- C18: a history of LZ4_compress_fast_extState_fastReset calls on ONE state (the documented use of _fastReset), recorded whole (op 11) so that the
 * Lean model of the reused state (Model/FastR.lean: LZ4_prepareTable, dictSmall, 16-bit table) replays it; every block must decode with NO history.
 * Inputs: log-like records sharing long prefixes, laid out back to back in one buffer (what precedes an input in memory resembles it), sizes mostly
 * below 4 KB (table kept), sometimes 0, 12, 13, around 4 KB and around the 64 KB limit (table type switches / resets). ---- */
static u64 n_fr_hist, n_fr_calls, n_fr_kept;
static void fastreset_history(void)
{
    enum { MAXC = 13 };
    LZ4_stream_t* st = LZ4_createStream(); int nc = 2 + (int)rndn(MAXC - 1), k; rec_t r; size_t total = 0, off = 0; u8* arena; size_t sz[MAXC]; u8* outs[MAXC]; int rets[MAXC], accs[MAXC], caps[MAXC];
    static const size_t special[] = {0, 1, 12, 13, 14, 4095, 4096, 4097, 65535, 65546, 65547, 66000};
    static const char* const pre[] = {"2026-09-26T12:00:", "GET /index.html?id=", "user=alice action=", "ERROR timeout while ", "", "aaaaaaaaaaaaaaaaaaaaaaaa"};
    for (k = 0; k < nc; k++) { sz[k] = rndp(78) ? 20 + rndn(rndp(70) ? 900 : 3900) : special[rndn(12)]; total += sz[k]; }
    arena = xalloc(total + 1);
    rec_begin(&r, 11); rec_int(&r, nc);
    for (k = 0; k < nc; k++) {
        u8* src = arena + off; size_t n = sz[k], i = 0; int bound = LZ4_compressBound((int)n), cap, acc = (int[]){1, 1, 1, 2, 5, 0, 70000}[rndn(7)], ret, d; u8* dst; u8* chk;
        while (i < n) { const char* p = pre[rndn(6)]; size_t l = strlen(p), m; if (l > n - i) l = n - i; memcpy(src + i, p, l); i += l; m = rndn(40); while (m-- && i < n) src[i++] = rndp(60) ? (u8)('0' + rndn(10)) : (u8)rnd(); if (i < n) src[i++] = '\n'; }
        if (k > 0 && n >= 16 && rndp(40)) { size_t from = rndn((u32)off), l = 8 + rndn(200); if (l > n) l = n; if (from + l > off) l = off - from; memcpy(src + rndn((u32)(n - l + 1)), arena + from, l); }   /* a piece of an earlier input */
        cap = rndp(70) ? bound : rndp(50) ? bound + (int)rndn(20) : (int)rndn((u32)bound + 1);
        dst = xalloc((size_t)(cap > 0 ? cap : 0));
        { u32 before = st->internal_donotuse.currentOffset; (void)before; }
        ret = LZ4_compress_fast_extState_fastReset(st, (const char*)src, (char*)dst, (int)n, cap, acc); n_calls++; n_fr_calls++;
        rets[k] = ret; accs[k] = acc; caps[k] = cap; outs[k] = dst;
        rec_bytes(&r, src, n); rec_int(&r, acc); rec_int(&r, cap); rec_int(&r, ret); rec_bytes(&r, dst, ret > 0 && ret <= cap ? (size_t)ret : 0);
        cur_set(&r);
        if (ret < 0 || ret > cap) c_fail(&r, "ret_gt_cap");
        else if (ret == 0 && cap >= bound) c_fail(&r, "fastReset_failed_at_bound");
        else if (ret > 0) { chk = xalloc(n); d = LZ4_decompress_safe((const char*)dst, (char*)chk, ret, (int)n); n_blocks++;
            if (d != (int)n || (n && memcmp(chk, src, n) != 0)) c_fail(&r, "block_does_not_decode_against_history"); free(chk); }
        cur_clear();
        off += n;
    }
    rec_write(&r); n_fr_hist++;
    for (k = 0; k < nc; k++) free(outs[k]);
    (void)rets; (void)accs; (void)caps;
    free(arena); LZ4_freeStream(st);
}

/* ---- a CONTIGUOUS streaming session of LZ4_compress_fast_continue on a freshly reset stream, recorded whole (op 15) so that the Lean model of the prefix
 * mode (Model/FastS.lean: the FastR loop run on [source - dictSize, source + n) from position dictSize) replays it: every return value and block identical.
 * Log-like records, pieces of earlier blocks copied in (matches reaching into the prefix), sizes incl. 0, < 13, around 64 KB; capacities mostly the bound,
 * sometimes tight: the session ends with the first call that returns 0.  Every block is decoded against the preceding 64 KB by the real decoder. ---- */
static u64 n_cs_hist, n_cs_calls, n_cs_failed, n_cs_reused, n_cs_stale;
static void contig_stream_history(int thorough)
{
    enum { MAXC = 13 };
    LZ4_stream_t* st = LZ4_createStream(); int nc = 2 + (int)rndn(MAXC - 1), k; rec_t r; size_t total = 0, off = 0; u8* arena; size_t sz[MAXC]; u8* outs[MAXC]; int nouts = 0; u8* tbkeep = NULL;
    static const size_t special[] = {0, 1, 12, 13, 14, 4095, 4097, 65535, 65536, 65547, 70000};
    static const char* const pre[] = {"2026-09-29T08:00:", "GET /index.html?id=", "user=bob action=", "WARN retry while ", "", "zzzzzzzzzzzzzzzzzzzzzz"};
    for (k = 0; k < nc; k++) { sz[k] = rndp(80) ? 20 + rndn(rndp(70) ? 1500 : (thorough ? 40000 : 9000)) : special[rndn(11)]; total += sz[k]; }
    arena = xalloc(total + 1);
    /* an earlier, unrelated life of the stream (C18): the table and currentOffset it leaves behind survive LZ4_resetStream_fast when they are byU32 */
    { int life = (int)rndn(6); size_t jn = life == 1 ? 65536 + rndn(30000) : 200 + rndn(6000); u8* junk = xalloc(jn + 1); u8* jo = xalloc((size_t)LZ4_compressBound((int)jn) + 1); size_t i;
      for (i = 0; i < jn; i++) junk[i] = rndp(50) ? (u8)('0' + rndn(10)) : (u8)pre[rndn(4)][i % 16];
      if (life == 1 || life == 2) { LZ4_compress_fast_extState_fastReset(st, (const char*)junk, (char*)jo, (int)jn, LZ4_compressBound((int)jn), 1); n_cs_reused++; }          /* byU32 (>= 64 KB) or byU16 one-shot */
      else if (life == 3) { int b; size_t o = 0; LZ4_resetStream_fast(st); for (b = 0; b < 4 && o + 100 < jn; b++) { size_t l = 50 + rndn((u32)(jn - o - 50)); LZ4_compress_fast_continue(st, (const char*)junk + o, (char*)jo, (int)l, LZ4_compressBound((int)l), 1); o += l; } n_cs_reused++; }
      else if (life == 4) { LZ4_loadDict(st, (const char*)junk, (int)jn); n_cs_reused++; }
      else if (life == 5) { int b, nb = 1 + (int)rndn(thorough ? 12 : 5); for (b = 0; b < nb; b++) { LZ4_resetStream_fast(st); LZ4_compress_fast_continue(st, (const char*)junk, (char*)jo, (int)jn, LZ4_compressBound((int)jn), 1); } n_cs_reused++; }   /* the 64 KB gaps add up */
      free(junk); free(jo); }
    LZ4_resetStream_fast(st);
    rec_begin(&r, 15); rec_int(&r, nc);
    { const LZ4_stream_t_internal* in = &st->internal_donotuse; u8* tb = xalloc(4 * LZ4_HASH_SIZE_U32); int i, nz = 0;
      for (i = 0; i < LZ4_HASH_SIZE_U32; i++) { u32 v = in->hashTable[i]; tb[4*i] = (u8)v; tb[4*i+1] = (u8)(v >> 8); tb[4*i+2] = (u8)(v >> 16); tb[4*i+3] = (u8)(v >> 24); nz |= v != 0; }
      rec_bytes(&r, tb, nz ? 4 * LZ4_HASH_SIZE_U32 : 0); rec_int(&r, (int)in->currentOffset); if (nz) n_cs_stale++; tbkeep = tb; }
    for (k = 0; k < nc; k++) {
        u8* src = arena + off; size_t n = sz[k], i = 0; int bound = LZ4_compressBound((int)n), cap, acc = (int[]){1, 1, 1, 2, 7, 0, 70000}[rndn(7)], ret, d; u8* dst; u8* chk;
        while (i < n) { const char* p = pre[rndn(6)]; size_t l = strlen(p), m; if (l > n - i) l = n - i; memcpy(src + i, p, l); i += l; m = rndn(40); while (m-- && i < n) src[i++] = rndp(60) ? (u8)('0' + rndn(10)) : (u8)rnd(); if (i < n) src[i++] = '\n'; }
        if (k > 0 && n >= 16 && off > 0 && rndp(60)) { size_t from = rndn((u32)off), l = 8 + rndn(300); if (l > n) l = n; if (from + l > off) l = off - from; memcpy(src + rndn((u32)(n - l + 1)), arena + from, l); }   /* a piece of the prefix */
        if (k > 0 && n >= 8 && off >= 8 && rndp(30)) memcpy(src, arena + off - 8, 8);                                          /* the block starts like the prefix ends: catch-up into the prefix */
        cap = rndp(85) ? bound : rndp(50) ? bound + (int)rndn(20) : (int)rndn((u32)bound + 1);
        dst = xalloc((size_t)(cap > 0 ? cap : 0)); outs[nouts++] = dst;
        ret = LZ4_compress_fast_continue(st, (const char*)src, (char*)dst, (int)n, cap, acc); n_calls++; n_cs_calls++;
        rec_bytes(&r, src, n); rec_int(&r, acc); rec_int(&r, cap); rec_int(&r, ret); rec_bytes(&r, dst, ret > 0 && ret <= cap ? (size_t)ret : 0);
        cur_set(&r);
        if (ret < 0 || ret > cap) c_fail(&r, "ret_gt_cap");
        else if (ret == 0 && cap >= bound) c_fail(&r, "continue_failed_at_bound");
        else if (ret > 0) { size_t hs = off < 65536 ? off : 65536; chk = xalloc(n);
            d = LZ4_decompress_safe_usingDict((const char*)dst, (char*)chk, ret, (int)n, (const char*)(arena + off - hs), (int)hs); n_blocks++;
            if (d != (int)n || (n && memcmp(chk, src, n) != 0)) c_fail(&r, "block_does_not_decode_against_history"); free(chk); }
        cur_clear();
        off += n;
        if (ret <= 0) { n_cs_failed++; nc = k + 1; break; }      /* after an error the stream can only be reset: the session ends */
    }
    r.ints[0] = (u64)nc;
    rec_write(&r); n_cs_hist++;
    for (k = 0; k < nouts; k++) free(outs[k]);
    free(tbkeep); free(arena); LZ4_freeStream(st);
}

/* ---- a whole life of one LZ4_stream_t with the source placed ANYWHERE (op 16): replayed by Model/FastX.lean, which gets the ADDRESSES and decides the
 * pointer tests itself (prefix mode / external dictionary mode / tiny dictionary / source overlapping the dictionary space).  Operations: compress
 * (right after the dictionary; somewhere else; ending inside the dictionary, i.e. overwriting its beginning like a ring buffer that wraps), LZ4_saveDict
 * (any size, possibly overlapping), LZ4_loadDict / LZ4_loadDictSlow (sizes 0..> 64 KB), LZ4_resetStream_fast.  Every block is also decoded by the real
 * decoder against the declared history (everything since the last reset / load, the loaded dictionary included). ---- */
static u64 n_xs_periodic, n_xs_attach, n_xs_attached_calls, n_xs_ops, n_xs_contig, n_xs_apart, n_xs_inside, n_xs_save, n_xs_load, n_xs_reset, n_xs_failed;
static void xstream_history(int thorough)
{
    enum { MAXO = 12 };
    size_t A = thorough ? (900u << 10) : (420u << 10); u8* arena = xalloc(A + 16); u8* H = xalloc(4 * A + 70000); size_t hl = 0; LZ4_stream_t* st = LZ4_createStream(); LZ4_stream_t* dstream = LZ4_createStream(); LZ4_stream_t dsCopy; const u8* adS = NULL; const u8* adE = NULL;
    const LZ4_stream_t_internal* in = &st->internal_donotuse; rec_t r; int nops = 3 + (int)rndn(MAXO - 2), k, nouts = 0, done = 0, nrec = 0; u8* outs[MAXO]; u8* copies[MAXO]; int ncopies = 0; size_t i;
    static const char* const pre[] = {"2026-09-29T08:00:", "GET /index.html?id=", "user=bob action=", "WARN retry while ", "", "zzzzzzzzzzzzzzzzzzzzzz"};
    for (i = 0; i < A; i++) arena[i] = rndp(50) ? (u8)('a' + rndn(6)) : (u8)rnd();
    LZ4_resetStream_fast(st);
    rec_begin(&r, 16); rec_int(&r, 0); rec_bytes(&r, NULL, 0); rec_int(&r, 0); rec_int(&r, 0); rec_bytes(&r, NULL, 0); rec_int(&r, 0);      /* starts from a fresh stream */
    for (k = 0; k < nops && !done && r.n + 8 < MAXARGS; k++) {
        const u8* dct = in->dictionary; size_t ds = in->dictSize; const u8* E = ds ? dct + ds : NULL; int kind = (int)rndn(100);
        int dictInArena = ds && dct >= arena && E <= arena + A; int attached = in->dictCtx != NULL;
        const u8* qd = attached ? in->dictCtx->dictionary : dct; size_t qs = attached ? in->dictCtx->dictSize : ds; const u8* qE = qd + qs;      /* what the next block may usefully quote */
        if (kind < 68) {                                                       /* ---- compress ---- */
            static const size_t special[] = {0, 1, 3, 12, 13, 14, 4095, 4097, 65535, 65536, 65547, 70000};
            size_t n = rndp(82) ? 20 + rndn(rndp(70) ? 1500 : (thorough ? 40000 : 9000)) : special[rndn(12)], j = 0; u8* src = NULL; int place = (int)rndn(100), bound, cap, acc = (int[]){1, 1, 1, 2, 7, 0, 70000}[rndn(7)], ret, tries, periodic = 0;
            u8* tmp = xalloc(n + 1); u8* dst; u8* cp;
            /* the content first (it may quote the dictionary and the declared history), then the place, then the bytes go there */
            while (j < n) { const char* p = pre[rndn(6)]; size_t l = strlen(p), m; if (l > n - j) l = n - j; memcpy(tmp + j, p, l); j += l; m = rndn(40); while (m-- && j < n) tmp[j++] = rndp(60) ? (u8)('0' + rndn(10)) : (u8)rnd(); if (j < n) tmp[j++] = '\n'; }
            if (n >= 16 && qs >= 8 && rndp(70)) { size_t from = rndn((u32)qs), l = 8 + rndn(300); if (l > n) l = n; if (from + l > qs) l = qs - from; memcpy(tmp + rndn((u32)(n - l + 1)), qd + from, l); }
            if (n >= 16 && qs >= 8 && rndp(30)) { size_t l = 4 + rndn(12); if (l > qs) l = qs; if (l > n) l = n; memcpy(tmp + rndn((u32)(n - l + 1)), qE - l, l); }      /* the very end of the dictionary (a match running into the source) */
            if (n >= 8 && qs >= 8 && rndp(25)) memcpy(tmp, qE - 8, 8);
            if (n >= 16 && hl >= 16 && rndp(40)) { size_t from = rndn((u32)hl), l = 8 + rndn(200); if (l > n) l = n; if (from + l > hl) l = hl - from; memcpy(tmp + rndn((u32)(n - l + 1)), H + from, l); }
            /* a block that goes on where the dictionary ends, periodically: ONE match that starts in the dictionary, runs to its end and continues for kilobytes
             * in the block (external-dictionary mode), with a capacity that runs out on that very sequence */
            if (qs >= 16 && n >= 64 && rndp(12)) { size_t L = 4 + rndn(qs < 64 ? (u32)qs - 4 : 60), q; for (q = 0; q < n; q++) tmp[q] = qE[(long)(q % L) - (long)L]; periodic = 1; place = 99; n_xs_periodic++; }
            if (place < 45 && dictInArena && E + n <= arena + A && !attached) { src = (u8*)E; n_xs_contig++; }
            else if (place < 62 && dictInArena && ds >= 8 && !attached) { size_t tail = rndp(30) ? 1 + rndn(6) : 1 + rndn((u32)ds - 1); const u8* se = E - tail; if (se >= arena + n) { src = (u8*)se - n; n_xs_inside++; } }
            for (tries = 0; !src && tries < 50; tries++) { u8* c = arena + rndn((u32)(A - n + 1)); if ((!ds || c + n <= dct || c >= E) && (!attached || c + n <= adS || c >= adE)) { src = c; n_xs_apart++; } }
            if (!src) { free(tmp); continue; }
            memcpy(src, tmp, n); free(tmp);
            bound = LZ4_compressBound((int)n); cap = rndp(88) ? bound : rndp(50) ? bound + (int)rndn(20) : (int)rndn((u32)bound + 1);
            if (periodic && rndp(85)) cap = 1 + (int)rndn(rndp(50) ? 24 : 90);
            dst = xalloc((size_t)(cap > 0 ? cap : 0)); outs[nouts++] = dst; cp = xalloc(n + 1); memcpy(cp, src, n); copies[ncopies++] = cp;
            ret = LZ4_compress_fast_continue(st, (const char*)src, (char*)dst, (int)n, cap, acc); n_calls++; n_xs_ops++;
            nrec++; rec_int(&r, 0); rec_int(&r, (long long)(size_t)src); rec_bytes(&r, cp, n); rec_int(&r, acc); rec_int(&r, cap); rec_int(&r, ret); rec_bytes(&r, dst, ret > 0 && ret <= cap ? (size_t)ret : 0);
            cur_set(&r);
            if (ret < 0 || ret > cap) c_fail(&r, "ret_gt_cap");
            else if (ret == 0 && cap >= bound) c_fail(&r, "continue_failed_at_bound");
            else if (ret > 0) { size_t hs = hl < 65536 ? hl : 65536; u8* chk = xalloc(n); int d = LZ4_decompress_safe_usingDict((const char*)dst, (char*)chk, ret, (int)n, (const char*)(H + hl - hs), (int)hs); n_blocks++;
                if (d != (int)n || (n && memcmp(chk, cp, n) != 0)) c_fail(&r, "block_does_not_decode_against_history"); free(chk); }
            if (attached) { n_xs_attached_calls++; if (memcmp(dstream, &dsCopy, sizeof dsCopy) != 0) c_fail(&r, "attached_dictionary_stream_modified"); }
            cur_clear();
            memcpy(H + hl, cp, n); hl += n;
            if (ret <= 0) { n_xs_failed++; done = 1; }
        } else if (kind < 79) {                                                /* ---- LZ4_saveDict ---- */
            int want = rndp(30) ? (int)rndn(80000) : rndp(50) ? 65536 : (int)rndn(3000), ret; u8* sb = arena + rndn((u32)(A - 66000));
            ret = LZ4_saveDict(st, (char*)sb, want); n_saves++; n_xs_save++; n_xs_ops++;
            nrec++; rec_int(&r, 1); rec_int(&r, (long long)(size_t)sb); rec_int(&r, want); rec_int(&r, ret);
        } else if (kind < 88) {                                                /* ---- LZ4_loadDict / LZ4_loadDictSlow ---- */
            static const size_t dsz[] = {0, 5, 7, 8, 9, 40, 65535, 65536, 65537, 70000}; size_t n = rndp(60) ? 16 + rndn(rndp(70) ? 4000 : 66000) : dsz[rndn(10)]; int slow = rndp(40), ret; u8* d = arena + rndn((u32)(A - n + 1)); size_t j; u8* cp;
            for (j = 0; j < n; j++) d[j] = rndp(50) ? (u8)pre[rndn(4)][j % 16] : rndp(60) ? (u8)('0' + rndn(10)) : (u8)rnd();
            ret = slow ? LZ4_loadDictSlow(st, (const char*)d, (int)n) : LZ4_loadDict(st, (const char*)d, (int)n); n_loads++; n_xs_load++; n_xs_ops++;
            cp = xalloc(n + 1); memcpy(cp, d, n); copies[ncopies++] = cp;
            nrec++; rec_int(&r, 2); rec_int(&r, (long long)(size_t)d); rec_bytes(&r, cp, n); rec_int(&r, slow); rec_int(&r, ret);
            memcpy(H, d, n); hl = n;
        } else if (kind < 96) {                                                /* ---- reset + a dictionary stream prepared by LZ4_loadDict(Slow) attached ---- */
            static const size_t dsz[] = {0, 7, 8, 40, 4096, 65535, 65536, 65537, 70000}; size_t n = rndp(65) ? 16 + rndn(rndp(70) ? 4000 : 66000) : dsz[rndn(9)]; int slow = rndp(40); u8* d = arena + rndn((u32)(A - n + 1)); size_t j; u8* cp;
            for (j = 0; j < n; j++) d[j] = rndp(50) ? (u8)pre[rndn(4)][j % 16] : rndp(60) ? (u8)('0' + rndn(10)) : (u8)rnd();
            LZ4_resetStream_fast(st);
            if (slow) LZ4_loadDictSlow(dstream, (const char*)d, (int)n); else LZ4_loadDict(dstream, (const char*)d, (int)n);
            LZ4_attach_dictionary(st, dstream); n_attach++; n_xs_attach++; n_xs_ops++;
            memcpy(&dsCopy, dstream, sizeof dsCopy); adS = d; adE = d + n;
            cp = xalloc(n + 1); memcpy(cp, d, n); copies[ncopies++] = cp;
            nrec++; rec_int(&r, 4); rec_int(&r, (long long)(size_t)d); rec_bytes(&r, cp, n); rec_int(&r, slow);
            memcpy(H, d, n); hl = n;
        } else { LZ4_resetStream_fast(st); n_resets++; n_xs_reset++; n_xs_ops++; nrec++; rec_int(&r, 3); hl = 0; }
    }
    r.ints[0] = (u64)nrec;
    rec_write(&r); n_xs_hist++;
    for (k = 0; k < nouts; k++) free(outs[k]);
    for (k = 0; k < ncopies; k++) free(copies[k]);
    free(arena); free(H); LZ4_freeStream(st); LZ4_freeStream(dstream);
}

/* One HC context reused through fast resets for more than 1 GB of cumulative input (C18): LZ4HC_init_internal then clears its tables and restarts the
 * indexes at 64 KB; whatever survives that clearing points INTO the inputs of the second lap.  Lap 1: a handful of records right after the initialisation;
 * then cheap fillers up to > 1 GB; lap 2: the same records again (same sizes, so the same indexes) and variants of them.  Every output is decoded alone. */
static void hc_index_wrap_reuse_scenario(int viaStream)
{
    enum { NR = 7, FILL = 64 << 20 };
    LZ4_streamHC_t* hs = LZ4_createStreamHC(); u8* recs[NR]; size_t rn[NR]; int lv[NR]; u8* filler = xalloc(FILL); u8* dst = xalloc((size_t)LZ4_compressBound(FILL)); int lap, i, f; unsigned long long fed = 0;
    static const int levels[] = {3, 9, 12, 4, 10, 2, 6};
    memset(filler, 'z', FILL);
    for (i = 0; i < NR; i++) { size_t j; rn[i] = 2000 + rndn(14000); recs[i] = xalloc(rn[i]); lv[i] = levels[i]; for (j = 0; j < rn[i]; j++) recs[i][j] = (j % 16 < 6) ? (u8)("key=id"[j % 16]) : (u8)rnd(); }
    for (lap = 0; lap < 2; lap++) {
        for (i = 0; i < NR; i++) {
            int r; u8* src = recs[i];
            if (lap == 1 && i >= 4) { size_t j; for (j = rn[i] / 2; j < rn[i]; j++) if (rndp(30)) src[j] = (u8)rnd(); }          /* second lap: some records are variants */
            if (viaStream) { LZ4_resetStreamHC_fast(hs, lv[i]); r = LZ4_compress_HC_continue(hs, (const char*)src, (char*)dst, (int)rn[i], LZ4_compressBound((int)rn[i])); n_resets++; }
            else r = LZ4_compress_HC_extStateHC_fastReset(hs, (const char*)src, (char*)dst, (int)rn[i], LZ4_compressBound((int)rn[i]), lv[i]);
            n_calls++; fed += rn[i];
            if (r <= 0) { rec_t rr; rec_begin(&rr, OP_STREAMBLOCK); c_fail(&rr, "continue_failed_at_bound"); continue; }
            hist_reset(); g_mirrorValid = 0; check_block(1, lv[i], src, rn[i], dst, r, 0);
        }
        /* fillers until the NEXT call is the one that finds the index beyond 1 GB (LZ4HC_init_internal: bufferSize + dictLimit > 1 GB): the first record of lap 2 */
        if (lap == 0) for (f = 0; (unsigned long long)(hs->internal_donotuse.end - hs->internal_donotuse.prefixStart) + hs->internal_donotuse.dictLimit <= (1ull << 30); f++) {
            int r;
            if (viaStream) { LZ4_resetStreamHC_fast(hs, 3); r = LZ4_compress_HC_continue(hs, (const char*)filler, (char*)dst, FILL, LZ4_compressBound(FILL)); }
            else r = LZ4_compress_HC_extStateHC_fastReset(hs, (const char*)filler, (char*)dst, FILL, LZ4_compressBound(FILL), 3);
            n_calls++; fed += FILL; if (r <= 0) break;
        }
    }
    n_hc_wraps++;
    for (i = 0; i < NR; i++) free(recs[i]);
    free(filler); free(dst); LZ4_freeStreamHC(hs);
}

static void ring_restart_scenario(int family)
{
    static u8 keys[64][8]; static int keysInit = 0; size_t rec = 12, bs, ring, s0, pos, k; int nblocks, i; u8* ringbuf; u8* dst;
    LZ4_stream_t* fs = LZ4_createStream(); LZ4_streamHC_t* hs = LZ4_createStreamHC(); int level = (int[]){2, 4, 9, 11}[rndn(4)];
    if (!keysInit) { for (i = 0; i < 64; i++) for (k = 0; k < 8; k++) keys[i][k] = (u8)('A' + rndn(26)); keysInit = 1; }
    bs = rec * (40 + rndn(400)); ring = bs * (2 + rndn(4)) + rec * rndn(20); s0 = rec * (1 + rndn((u32)(bs / rec - 1)));
    ringbuf = xalloc(ring + bs); dst = xalloc((size_t)LZ4_compressBound((int)bs));
    /* lap 0 content of the whole ring (what an earlier session left there) */
    for (pos = 0; pos + rec <= ring + bs; pos += rec) { memcpy(ringbuf + pos, keys[(pos / rec * 7) % 64], 8); for (k = 8; k < rec; k++) ringbuf[pos + k] = (u8)rnd(); }
    hist_reset(); mirror_reset(NULL, 0);
    if (family == 1) LZ4_resetStreamHC_fast(hs, level); else LZ4_resetStream_fast(fs);
    pos = s0; nblocks = 6 + (int)rndn(10);
    for (i = 0; i < nblocks; i++) {
        size_t n = bs - rec * rndn(3); int r; u8* src;
        if (pos + n > ring) { pos = 0; n_wraps++; }
        src = ringbuf + pos;
        /* new lap: same keys at the same addresses, fresh payloads for most records; some records repeat an earlier record of this block */
        for (k = 0; k + rec <= n; k += rec) { size_t j; if (k >= 2 * rec && rndp(30)) memcpy(src + k, src + rec * rndn((u32)(k / rec)), 8 + rndn(3)); for (j = 8; j < rec; j++) if (rndp(70)) src[k + j] = (u8)rnd(); }
        r = family == 0 ? LZ4_compress_fast_continue(fs, (const char*)src, (char*)dst, (int)n, LZ4_compressBound((int)n), 1) : LZ4_compress_HC_continue(hs, (const char*)src, (char*)dst, (int)n, LZ4_compressBound((int)n));
        n_calls++;
        TR("ringrestart fam=%d ring=%zu bs=%zu s0=%zu pos=%zu n=%zu -> %d", family, ring, bs, s0, pos, n, r);
        if (r <= 0) { rec_t rr; rec_begin(&rr, OP_STREAMBLOCK); c_fail(&rr, "continue_failed_at_bound"); break; }
        g_mirrorValid = 0;
        check_block(family, level, src, n, dst, r, 0); hist_append(src, n); pos += n;
    }
    LZ4_freeStream(fs); LZ4_freeStreamHC(hs); free(ringbuf); free(dst);
}

int main(int argc, char** argv)
{
    const char* mode; int thorough, i; u64 seed; u8* dictbuf; int nh;
    if (argc < 6) { fprintf(stderr, "usage: strm mode tier seed casefile crashfile\n"); return 2; }
    mode = argv[1]; thorough = !strcmp(argv[2], "thorough"); seed = strtoull(argv[3], 0, 10);
    harness_init(argv[4], argv[5], seed); g_trace = getenv("STRM_TRACE") != NULL;
    dictbuf = xalloc(70000); gen_data(dictbuf, 70000, D_LZLIKE);
    g_hist = xalloc(65536 + 8); g_ringSize = (size_t)LZ4_decoderRingBufferSize(MAXBLOCK); g_ring = xalloc(g_ringSize);
    nh = thorough ? SH(!strcmp(mode, "c12") ? 12000 : 4000) : 300;
    for (i = 0; i < nh; i++) run_history(i % 2, 20 + (int)rndn(40), mode, dictbuf);
    if (!strcmp(mode, "c11")) for (i = 0; i < (thorough ? SH(3000) : 200); i++) ring_restart_scenario(i % 4 == 3);
    if (!strcmp(mode, "c11")) { int reps = thorough ? 3 : 1, q; for (q = 0; q < reps; q++) if (SHARD_IS(q)) long_stream_renorm_scenario(); }
    if (!strcmp(mode, "c18") && SHARD_IS(1)) long_stream_renorm_scenario_x(1);
    if (!strcmp(mode, "c18")) { if (SHARD_IS(2)) hc_index_wrap_reuse_scenario(0); if (thorough && SHARD_IS(3)) hc_index_wrap_reuse_scenario(1); }
    if (!strcmp(mode, "c11")) { if (SHARD_IS(3)) long_stream_renorm_scenario_hc(thorough ? 2 : 3); if (thorough) { if (SHARD_IS(4)) long_stream_renorm_scenario_hc(3); if (SHARD_IS(5)) long_stream_renorm_scenario_hc(9); } }
    if (!strcmp(mode, "c18")) for (i = 0; i < (thorough ? SH(20000) : 1500); i++) fastreset_history();
    if (!strcmp(mode, "c11") || !strcmp(mode, "c18")) for (i = 0; i < (thorough ? SH(8000) : 700); i++) contig_stream_history(thorough);
    if (!strcmp(mode, "c11") || !strcmp(mode, "c12") || !strcmp(mode, "c18")) for (i = 0; i < (thorough ? SH(8000) : 700); i++) xstream_history(thorough);
    harness_done();
    stat_u("calls", n_calls); stat_u("blocks_checked", n_blocks); stat_u("limited_output_failures", n_fail_ret0); stat_u("saveDict", n_saves); stat_u("loadDict", n_loads); stat_u("attach", n_attach);
    stat_u("resets", n_resets); stat_u("fastReset_oneshots", n_oneshots); stat_u("continue_destSize", n_destsize); stat_u("ring_wraps", n_wraps); stat_u("streams_beyond_2GiB", n_renorm); stat_u("fastReset_histories", n_fr_hist); stat_u("contiguous_stream_sessions", n_cs_hist); stat_u("contiguous_stream_calls", n_cs_calls); stat_u("contiguous_stream_sessions_on_reused_stream", n_cs_reused); stat_u("contiguous_stream_sessions_starting_with_stale_table", n_cs_stale); stat_u("contiguous_stream_sessions_ended_by_failure", n_cs_failed); stat_u("fastReset_history_calls", n_fr_calls); stat_u("hc_contexts_reused_beyond_1GiB", n_hc_wraps); stat_u("placed_stream_lives", n_xs_hist); stat_u("placed_stream_lives_through_2GiB_rescale", n_xs_renorm); stat_u("placed_stream_ops", n_xs_ops); stat_u("placed_stream_compress_contiguous", n_xs_contig); stat_u("placed_stream_compress_apart", n_xs_apart); stat_u("placed_stream_compress_overlapping_dictionary", n_xs_inside); stat_u("placed_stream_saveDict", n_xs_save); stat_u("placed_stream_loadDict", n_xs_load); stat_u("placed_stream_reset", n_xs_reset); stat_u("placed_stream_periodic_continuation_blocks", n_xs_periodic); stat_u("placed_stream_attach", n_xs_attach); stat_u("placed_stream_compress_with_attached_dictionary", n_xs_attached_calls); stat_u("placed_stream_lives_ended_by_failure", n_xs_failed); stat_u("records", g_nrecords);
    stat_u("cfails", (u64)g_cfails);
    free(dictbuf); free(g_hist); free(g_ring);
    return g_cfails ? 1 : 0;
}
