/* HC hash-chain levels (3..9) against the oracle model lean/LZ4V/HC: the REAL LZ4HC_compress_hashChain of an instrumented COPY of lib/lz4hc.c
 * (four log points inserted by vlib/core.py: the answers of LZ4HC_InsertAndFindBestMatch / LZ4HC_InsertAndGetWiderMatch and every encoded sequence).
 * The Lean judge replays the parser model with the logged answers as its oracle: same sequences, same block; and checks the oracle contract
 * (every answer the parser could accept is a byte-verified match) on the real finder's answers.
 * usage: hc <mode> <tier> <seed> <casefile> <crashfile> */
#define LZ4_STATIC_LINKING_ONLY
#define LZ4_HC_STATIC_LINKING_ONLY
#include "lz4.c"
#include <stdint.h>
static int g_hl_on = 0; static const unsigned char* g_hl_base = NULL; static int32_t* g_hl = NULL; static size_t g_hl_n = 0, g_hl_cap = 0;
static void hl_put(int kind, long a, long b, long c, long d, long e, long f)
{
    if (g_hl_n + 7 > g_hl_cap) { g_hl_cap = (g_hl_n + 7) * 2 + 1024; g_hl = (int32_t*)realloc(g_hl, g_hl_cap * sizeof(int32_t)); }
    g_hl[g_hl_n++] = kind; g_hl[g_hl_n++] = (int32_t)a; g_hl[g_hl_n++] = (int32_t)b; g_hl[g_hl_n++] = (int32_t)c; g_hl[g_hl_n++] = (int32_t)d; g_hl[g_hl_n++] = (int32_t)e; g_hl[g_hl_n++] = (int32_t)f;
}
#define VLOG_B(ip, m) do { if (g_hl_on) hl_put(1, (long)((const unsigned char*)(ip) - g_hl_base), 0, 0, (m).len, (m).off, 0); } while (0)
#define VLOG_W(start, low, longest, m) do { if (g_hl_on) hl_put(2, (long)((const unsigned char*)(start) - g_hl_base), (long)((const unsigned char*)(low) - g_hl_base), (longest), (m).len, (m).off, (m).back); } while (0)
#define VLOG_E(anchor, ip, ml, off) do { if (g_hl_on) hl_put(3, (long)((const unsigned char*)(anchor) - g_hl_base), (long)((const unsigned char*)(ip) - g_hl_base), (ml), (off), 0, 0); } while (0)
#include "lz4hc_verif.c"
#include "gen.h"

static u64 n_calls, n_seq, n_best, n_wider;

static void one_case(const u8* in, size_t n, int level)
{
    int bound = LZ4_compressBound((int)n), r, d; u8* src = xalloc(n + 1); u8* dst = xalloc((size_t)bound + 1); u8* chk = xalloc(n + 1); rec_t rec; size_t k;
    memcpy(src, in, n);
    g_hl_n = 0; g_hl_base = src; g_hl_on = 1;
    r = LZ4_compress_HC((const char*)src, (char*)dst, (int)n, bound, level); n_calls++;
    g_hl_on = 0;
    for (k = 0; k < g_hl_n; k += 7) { if (g_hl[k] == 1) n_best++; else if (g_hl[k] == 2) n_wider++; else n_seq++; }
    rec_begin(&rec, 18); rec_int(&rec, level); rec_bytes(&rec, src, n); rec_bytes(&rec, g_hl, g_hl_n * sizeof(int32_t)); rec_int(&rec, r); rec_bytes(&rec, dst, r > 0 ? (size_t)r : 0);
    cur_set(&rec);
    if (r <= 0) c_fail(&rec, "bound_should_succeed");
    else { d = LZ4_decompress_safe((const char*)dst, (char*)chk, r, (int)n); if (d != (int)n || (n && memcmp(chk, src, n) != 0)) c_fail(&rec, "real_decoder_mismatch_hc"); }
    cur_clear(); rec_write(&rec);
    free(src); free(dst); free(chk);
}

/* ---- streaming / dictionary sessions at the hash-chain levels (op 19): LZ4_compress_HC_continue on one LZ4_streamHC_t, blocks laid out contiguously, in a
 * double buffer or after an LZ4_loadDictHC; the level may change between blocks (3..9); every block is recorded with the history the decoder has (the
 * last 64 KB of dictionary + previous blocks) and the finders' log ---- */
static u64 n_sessions, n_stream_blocks, n_loaddict;
static u8 g_hh[65536 + 8]; static size_t g_hhn;
static void hh_append(const u8* p, size_t n)
{
    if (n >= 65536) { memcpy(g_hh, p + n - 65536, 65536); g_hhn = 65536; return; }
    if (g_hhn + n > 65536) { size_t drop = g_hhn + n - 65536; memmove(g_hh, g_hh + drop, g_hhn - drop); g_hhn -= drop; }
    memcpy(g_hh + g_hhn, p, n); g_hhn += n;
}
static LZ4_streamHC_t* g_shared_hs = NULL;   /* mode c18: ONE stream for all sessions (LZ4_resetStreamHC_fast between them), interleaved with one-shot fast-reset calls */
static void hc_session(int thorough)
{
    static const int levels[] = {3, 4, 5, 6, 7, 8, 9, 9, 3, 1, 2, 10, 11, 12};
    size_t A = thorough ? (600u << 10) : (300u << 10); u8* arena = xalloc(A + 16); u8* dbuf[2]; LZ4_streamHC_t* hs = g_shared_hs ? g_shared_hs : LZ4_createStreamHC(); int nb = 2 + (int)rndn(8), b, level = levels[rndn(14)], geometry = (int)rndn(3); size_t pos = 0, maxb = thorough ? 30000 : 12000;
    u8* dict = NULL; size_t dn = 0;
    dbuf[0] = xalloc(maxb + 16); dbuf[1] = xalloc(maxb + 16);
    LZ4_resetStreamHC_fast(hs, level); g_hhn = 0;
    if (rndp(40)) { static const size_t dsz[] = {0, 3, 4, 12, 1000, 65535, 65536, 65537, 70000}; dn = rndp(60) ? 16 + rndn(rndp(70) ? 4000 : 66000) : dsz[rndn(9)]; dict = xalloc(dn + 1); gen_data(dict, dn, rndp(50) ? D_LZLIKE : (int)rndn(D_KINDS));
        LZ4_loadDictHC(hs, (const char*)dict, (int)dn); n_loaddict++; if (dn >= 4) hh_append(dict, dn); /* a dictionary shorter than 4 bytes is ignored */ }
    for (b = 0; b < nb; b++) {
        size_t n = rndp(15) ? rndn(16) : rndp(70) ? 20 + rndn(3000) : 20 + rndn((u32)maxb - 20); u8* src; int bound = LZ4_compressBound((int)n), r, d; u8* dst; u8* chk; rec_t rec; size_t k;
        if (geometry == 0) { if (pos + n > A) break; src = arena + pos; pos += n; }                         /* contiguous */
        else if (geometry == 1) src = dbuf[b & 1];                                                         /* double buffer */
        else { if (rndp(50)) { if (pos + n > A) break; src = arena + pos; pos += n; } else { pos += 1 + rndn(5000); if (pos + n > A) break; src = arena + pos; pos += n; } }   /* contiguous runs with gaps */
        gen_data(src, n, rndp(40) ? D_LZLIKE : (int)rndn(D_KINDS));
        if (g_hhn >= 16 && n >= 16) { int q, nq = (int)rndn(4); for (q = 0; q < nq; q++) { size_t l = 8 + rndn(200), from = rndn((u32)g_hhn), to; if (l > n) l = n; if (from + l > g_hhn) l = g_hhn - from; to = rndn((u32)(n - l + 1)); memcpy(src + to, g_hh + from, l); } }   /* quotes of the history */
        if (rndp(20)) { level = levels[rndn(14)]; LZ4_setCompressionLevel(hs, level); }
        dst = xalloc((size_t)bound + 1); chk = xalloc(n + 1);
        g_hl_n = 0; g_hl_base = src; g_hl_on = 1;
        r = LZ4_compress_HC_continue(hs, (const char*)src, (char*)dst, (int)n, bound); n_calls++; n_stream_blocks++;
        g_hl_on = 0;
        for (k = 0; k < g_hl_n; k += 7) { if (g_hl[k] == 1) n_best++; else if (g_hl[k] == 2) n_wider++; else n_seq++; }
        rec_begin(&rec, 19); rec_int(&rec, level); rec_bytes(&rec, g_hh, g_hhn); rec_bytes(&rec, src, n); rec_bytes(&rec, g_hl, g_hl_n * sizeof(int32_t)); rec_int(&rec, r); rec_bytes(&rec, dst, r > 0 ? (size_t)r : 0);
        cur_set(&rec);
        if (r <= 0) c_fail(&rec, "continue_failed_at_bound");
        else { d = LZ4_decompress_safe_usingDict((const char*)dst, (char*)chk, r, (int)n, (const char*)g_hh, (int)g_hhn); if (d != (int)n || (n && memcmp(chk, src, n) != 0)) c_fail(&rec, "block_does_not_decode_against_history"); }
        cur_clear(); rec_write(&rec);
        hh_append(src, n);
        free(dst); free(chk);
        if (r <= 0) break;
    }
    n_sessions++;
    if (g_shared_hs && rndp(40)) { size_t jn = 100 + rndn(20000); u8* j = xalloc(jn); u8* jo = xalloc((size_t)LZ4_compressBound((int)jn)); gen_data(j, jn, (int)rndn(D_KINDS)); LZ4_compress_HC_extStateHC_fastReset(g_shared_hs, (const char*)j, (char*)jo, (int)jn, LZ4_compressBound((int)jn), levels[rndn(14)]); n_calls++; free(j); free(jo); }   /* an unrelated one-shot use of the same state */
    free(arena); free(dbuf[0]); free(dbuf[1]); free(dict); if (!g_shared_hs) LZ4_freeStreamHC(hs);
}

int main(int argc, char** argv)
{
    const char* mode; int thorough, i; u64 seed; u8* data; size_t maxn;
    static const int levels[] = {3, 4, 5, 6, 7, 8, 9, 9, 3, 1, 2, 10, 11, 12};
    if (argc < 6) { fprintf(stderr, "usage: hc mode tier seed casefile crashfile\n"); return 2; }
    mode = argv[1]; thorough = !strcmp(argv[2], "thorough"); seed = strtoull(argv[3], 0, 10);
    harness_init(argv[4], argv[5], seed);
    maxn = thorough ? 120000 : 40000; data = xalloc(maxn + 16);
    if (!strcmp(mode, "c18")) g_shared_hs = LZ4_createStreamHC();
    if (!strcmp(mode, "c11") || !strcmp(mode, "c18")) { for (i = 0; i < (thorough ? SH(3000) : 260); i++) hc_session(thorough); }
    else for (i = 0; i < (thorough ? SH(6000) : 500); i++) {
        size_t n = rndp(20) ? rndn(40) : rndp(60) ? rndn(3000) : rndn((u32)maxn); int kind = rndp(35) ? D_LZLIKE : (int)rndn(D_KINDS);
        gen_data(data, n, kind);
        if (n > 64 && rndp(30)) { size_t a = rndn((u32)n / 2), l = 1 + rndn((u32)(n - a) / 2), k; for (k = 0; k < l; k++) data[a + k] = data[a]; }      /* a run: pattern analysis */
        if (n > 200 && rndp(30)) { size_t l = 20 + rndn(100), from = rndn((u32)(n / 2)), to = n / 2 + rndn((u32)(n / 2 - l > 0 ? n / 2 - l : 1)); if (to + l <= n) memmove(data + to, data + from, l); }   /* a long repeat */
        one_case(data, n, levels[rndn(14)]);
    }
    harness_done();
    stat_u("calls", n_calls); stat_u("hc_stream_sessions", n_sessions); stat_u("hc_stream_blocks", n_stream_blocks); stat_u("hc_loadDictHC", n_loaddict); stat_u("hc_sequences_logged", n_seq); stat_u("hc_best_match_answers", n_best); stat_u("hc_wider_match_answers", n_wider); stat_u("records", g_nrecords); stat_u("cfails", (u64)g_cfails);
    free(data);
    return g_cfails ? 1 : 0;
}
