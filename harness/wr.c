/* Write-register harness (C13): drives the real static LZ4IO_checkWriteOrder / WR_* of programs/lz4io.c with every arrival order
 * of <= 7 jobs and random orders of up to 300 jobs (the register grows beyond its initial 16 slots), each payload distinct.
 * The file written must be the payloads in rank order, each exactly once; the Lean judge runs Model.WR on the same arrival order (op 9).
 * usage: wr <mode> <tier> <seed> <casefile> <crashfile> */
#define LZ4IO_MULTITHREAD 1
#define XXH_NAMESPACE LZ4_
#include "lz4io.c"
#include "gen.h"

static u64 n_calls, n_orders, n_grow;

static void one_order(const int* order, int n)
{
    WriteRegister wr = WR_init(4); FILE* f = tmpfile(); int i; rec_t r; u8 ranks[2048]; u8* file; long fsz; size_t expectLen = 0, p = 0; int ok = 1;
    for (i = 0; i < n; i++) {
        WriteJobDesc* wjd = (WriteJobDesc*)malloc(sizeof *wjd); size_t sz = 1 + (size_t)(order[i] % 5); u8* buf = (u8*)malloc(sz); size_t k;
        for (k = 0; k < sz; k++) buf[k] = (u8)(order[i] * 3 + (int)k);
        wjd->wr = &wr; wjd->cBuf = buf; wjd->cSize = sz; wjd->blockNb = (unsigned long long)order[i]; wjd->out = f;
        LZ4IO_checkWriteOrder(wjd); n_calls++;
        if (wr.capacity > 16) n_grow++;
    }
    fflush(f); fsz = ftell(f); rewind(f); file = xalloc((size_t)fsz); if (fread(file, 1, (size_t)fsz, f) != (size_t)fsz) exit(3);
    for (i = 0; i < n; i++) ranks[i] = (u8)order[i];
    rec_begin(&r, 9); rec_int(&r, n); rec_bytes(&r, NULL, 0); rec_bytes(&r, file, (size_t)fsz);
    { static u8 ord[4096]; for (i = 0; i < n; i++) { ord[2 * i] = (u8)(order[i] & 255); ord[2 * i + 1] = (u8)(order[i] >> 8); } r.n = 1; rec_bytes(&r, ord, (size_t)(2 * n)); rec_bytes(&r, file, (size_t)fsz); }
    for (i = 0; i < n; i++) { size_t sz = 1 + (size_t)(i % 5), k; expectLen += sz; for (k = 0; k < sz; k++) { if (p >= (size_t)fsz || file[p] != (u8)(i * 3 + (int)k)) ok = 0; p++; } }
    if (!ok || expectLen != (size_t)fsz) c_fail(&r, "write_register_out_of_order_or_not_once");
    if (wr.expectedRank != (unsigned long long)n) c_fail(&r, "write_register_expected_rank");
    rec_write(&r); n_orders++;
    free(file); fclose(f); WR_destroy(&wr);
}

static void permute(int* a, int k, int n) { int i; if (k == n) { one_order(a, n); return; } for (i = k; i < n; i++) { int t = a[k]; a[k] = a[i]; a[i] = t; permute(a, k + 1, n); t = a[k]; a[k] = a[i]; a[i] = t; } }

int main(int argc, char** argv)
{
    int thorough, n, i; u64 seed; int a[512];
    if (argc < 6) return 2;
    thorough = !strcmp(argv[2], "thorough"); seed = strtoull(argv[3], 0, 10);
    harness_init(argv[4], argv[5], seed);
    for (n = 0; n <= (thorough ? 7 : 6); n++) { for (i = 0; i < n; i++) a[i] = i; permute(a, 0, n); }
    for (i = 0; i < (thorough ? 3000 : 300); i++) {
        int j; n = 1 + (int)rndn(thorough ? 300 : 120);
        for (j = 0; j < n; j++) a[j] = j;
        if (rndp(30)) { for (j = 0; j < n / 2; j++) { int t = a[j]; a[j] = a[n - 1 - j]; a[n - 1 - j] = t; } }       /* reverse: everything is stored first */
        else for (j = n - 1; j > 0; j--) { int k = (int)rndn((u32)j + 1); int t = a[j]; a[j] = a[k]; a[k] = t; }
        one_order(a, n);
    }
    harness_done();
    stat_u("calls", n_calls); stat_u("arrival_orders", n_orders); stat_u("register_grown", n_grow); stat_u("records", g_nrecords); stat_u("cfails", (u64)g_cfails);
    return g_cfails ? 1 : 0;
}
