/* Write-register harness (C13): drives the real static LZ4IO_checkWriteOrder / WR_* of programs/lz4io.c with every arrival order
 * of <= 7 jobs and random orders of up to 300 jobs (the register grows beyond its initial 16 slots), each payload distinct.
 * The file written must be the payloads in rank order, each exactly once; the Lean judge runs Model.WR on the same arrival order (op 9).
 * usage: wr <mode> <tier> <seed> <casefile> <crashfile> */
#define LZ4IO_MULTITHREAD 1
#define XXH_NAMESPACE LZ4_
#include "lz4io.c"
#include "gen.h"

static u64 n_calls, n_orders, n_grow, n_grow512;

static void one_order(const int* order, int n)
{
    WriteRegister wr = WR_init(4); FILE* f = tmpfile(); int i; rec_t r; static u8 ranks[2048]; u8* file; long fsz; size_t expectLen = 0, p = 0; int ok = 1;
    for (i = 0; i < n; i++) {
        WriteJobDesc* wjd = (WriteJobDesc*)malloc(sizeof *wjd); size_t sz = 1 + (size_t)(order[i] % 5); u8* buf = (u8*)malloc(sz); size_t k;
        for (k = 0; k < sz; k++) buf[k] = (u8)(order[i] * 3 + (int)k);
        wjd->wr = &wr; wjd->cBuf = buf; wjd->cSize = sz; wjd->blockNb = (unsigned long long)order[i]; wjd->out = f;
        LZ4IO_checkWriteOrder(wjd); n_calls++;
        if (wr.capacity > 16) n_grow++; if (wr.capacity > 512) n_grow512++;
    }
    fflush(f); fsz = ftell(f); rewind(f); file = xalloc((size_t)fsz); if (fread(file, 1, (size_t)fsz, f) != (size_t)fsz) exit(3);
    for (i = 0; i < n; i++) ranks[i] = (u8)order[i];
    rec_begin(&r, 9); rec_int(&r, n); rec_bytes(&r, NULL, 0); rec_bytes(&r, file, (size_t)fsz);
    { static u8 ord[4096]; for (i = 0; i < n; i++) { ord[2 * i] = (u8)(order[i] & 255); ord[2 * i + 1] = (u8)(order[i] >> 8); } r.n = 1; rec_bytes(&r, ord, (size_t)(2 * n)); rec_bytes(&r, file, (size_t)fsz); }
    for (i = 0; i < n; i++) { size_t sz = 1 + (size_t)(i % 5), k; expectLen += sz; for (k = 0; k < sz; k++) { if (p >= (size_t)fsz || file[p] != (u8)(i * 3 + (int)k)) ok = 0; p++; } }
    if (!ok || expectLen != (size_t)fsz) c_fail(&r, "write_register_out_of_order_or_not_once");
    if (wr.expectedRank != (unsigned long long)n) c_fail(&r, "write_register_expected_rank");
    rec_write(&r); n_orders++;
    free(file); fclose(f); WR_destroy(&wr);
}

/* ---- C04: the real static LZ4IO_fwriteSparse / LZ4IO_fwriteSparseEnd against the Lean model (op 10) ---- */
static u64 n_sparse, n_sparse_bytes, n_allzero_bufs, n_tail;
static void fill_zero_rich(u8* b, size_t n)
{
    size_t i = 0; int style = (int)rndn(5);
    if (style == 0) { memset(b, 0, n); return; }
    while (i < n) {
        size_t run; int zero = rndp(style == 1 ? 85 : 50);
        switch (rndn(5)) { case 0: run = 1 + rndn(9); break; case 1: run = 8 * (1 + rndn(6)); break; case 2: run = 32768 - 9 + rndn(20); break; case 3: run = 1 + rndn(70000); break; default: run = 1 + rndn(300); }
        if (run > n - i) run = n - i;
        if (zero) memset(b + i, 0, run); else { size_t k; for (k = 0; k < run; k++) b[i + k] = (u8)(1 + rndn(255)); if (rndp(20)) b[i + rndn((u32)run)] = 0; }
        i += run;
    }
}
static void sparse_session(int thorough)
{
    int nb = (int)rndn(6), i; FILE* f = tmpfile(); unsigned skips = 0; rec_t r; static u8 lens[64], rets[64]; size_t total = 0; u8* all; u8* file; long fsz; size_t maxb = thorough ? 300000 : 140000;
    u8* bufs[8]; size_t sz[8];
    if (!f) exit(3);
    for (i = 0; i < nb; i++) {
        switch (rndn(7)) { case 0: sz[i] = rndn(40); break; case 1: sz[i] = 8 * rndn(20); break; case 2: sz[i] = 32768 + rndn(17) - 8; break; case 3: sz[i] = 65536 + rndn(9); break; case 4: sz[i] = rndn((u32)maxb); break; case 5: sz[i] = 0; break; default: sz[i] = rndn(5000); }
        bufs[i] = (u8*)malloc(sz[i] ? sz[i] : 1); fill_zero_rich(bufs[i], sz[i]); total += sz[i];
        if (sz[i] & 7) n_tail++;
    }
    all = xalloc(total + 1); total = 0;
    for (i = 0; i < nb; i++) {
        skips = LZ4IO_fwriteSparse(f, bufs[i], sz[i], 1 + (int)rndn(2), skips); n_calls++;
        lens[4*i] = (u8)sz[i]; lens[4*i+1] = (u8)(sz[i] >> 8); lens[4*i+2] = (u8)(sz[i] >> 16); lens[4*i+3] = (u8)(sz[i] >> 24);
        rets[4*i] = (u8)skips; rets[4*i+1] = (u8)(skips >> 8); rets[4*i+2] = (u8)(skips >> 16); rets[4*i+3] = (u8)(skips >> 24);
        memcpy(all + total, bufs[i], sz[i]); total += sz[i];
        { size_t k, z = 1; for (k = 0; k < sz[i]; k++) if (bufs[i][k]) { z = 0; break; } if (z && sz[i]) n_allzero_bufs++; }
    }
    LZ4IO_fwriteSparseEnd(f, skips); n_calls++;
    fflush(f); fseek(f, 0, SEEK_END); fsz = ftell(f); rewind(f); file = xalloc((size_t)fsz + 1); if (fread(file, 1, (size_t)fsz, f) != (size_t)fsz) exit(3);
    rec_begin(&r, 10); rec_int(&r, nb); rec_bytes(&r, lens, (size_t)(4 * nb)); rec_bytes(&r, all, total); rec_bytes(&r, rets, (size_t)(4 * nb)); rec_bytes(&r, file, (size_t)fsz);
    if ((size_t)fsz != total || (total && memcmp(file, all, total) != 0)) c_fail(&r, "sparse_output_differs_from_plain");
    rec_write(&r); n_sparse++; n_sparse_bytes += total;
    for (i = 0; i < nb; i++) free(bufs[i]);
    free(all); free(file); fclose(f);
}

static void permute(int* a, int k, int n) { int i; if (k == n) { one_order(a, n); return; } for (i = k; i < n; i++) { int t = a[k]; a[k] = a[i]; a[i] = t; permute(a, k + 1, n); t = a[k]; a[k] = a[i]; a[i] = t; } }

int main(int argc, char** argv)
{
    int thorough, n, i; u64 seed; static int a[2048];
    if (argc < 6) return 2;
    thorough = !strcmp(argv[2], "thorough"); seed = strtoull(argv[3], 0, 10);
    harness_init(argv[4], argv[5], seed);
    if (!strcmp(argv[1], "c04")) {
        for (i = 0; i < (thorough ? SH(4000) : 500); i++) sparse_session(thorough);
        harness_done();
        stat_u("calls", n_calls); stat_u("sparse_sessions", n_sparse); stat_u("sparse_bytes", n_sparse_bytes); stat_u("all_zero_buffers", n_allzero_bufs); stat_u("buffers_with_tail", n_tail);
        stat_u("records", g_nrecords); stat_u("cfails", (u64)g_cfails);
        return g_cfails ? 1 : 0;
    }
    if (ONCE) for (n = 0; n <= (thorough ? 7 : 6); n++) { for (i = 0; i < n; i++) a[i] = i; permute(a, 0, n); }
    for (i = 0; i < (thorough ? SH(3000) : 300); i++) {
        int j; n = 1 + (int)rndn(thorough ? 300 : 120);
        for (j = 0; j < n; j++) a[j] = j;
        if (rndp(30)) { for (j = 0; j < n / 2; j++) { int t = a[j]; a[j] = a[n - 1 - j]; a[n - 1 - j] = t; } }       /* reverse: everything is stored first */
        else for (j = n - 1; j > 0; j--) { int k = (int)rndn((u32)j + 1); int t = a[j]; a[j] = a[k]; a[k] = t; }
        one_order(a, n);
    }
    /* long backlogs: one slow block while hundreds of later ones are parked (the register grows 16, 32, ... 512, 768, 1024, 1280: every growth step is taken) */
    {   static const int big[] = {520, 770, 1030, 1300}; int b, j;
        for (b = 0; b < (thorough ? 4 : 3); b++) {
            n = big[b];
            for (j = 0; j < n - 1; j++) a[j] = j + 1; a[n - 1] = 0; one_order(a, n);                   /* block 0 arrives last */
            for (j = 0; j < n; j++) a[j] = n - 1 - j; one_order(a, n);                                  /* completely reversed */
            for (j = 0; j < n; j++) a[j] = j; for (j = n - 1; j > 0; j--) { int k = (int)rndn((u32)j + 1); int t = a[j]; a[j] = a[k]; a[k] = t; } a[n - 1] = a[0] ? a[n - 1] : a[n - 1]; one_order(a, n);   /* random */
            for (j = 0; j < n; j++) a[j] = (j % 2) ? j - 1 : (j + 1 < n ? j + 1 : j); one_order(a, n);  /* pairs swapped: the register stays small */
        }
    }
    harness_done();
    stat_u("calls", n_calls); stat_u("arrival_orders", n_orders); stat_u("register_grown", n_grow); stat_u("register_grown_beyond_512", n_grow512); stat_u("records", g_nrecords); stat_u("cfails", (u64)g_cfails);
    return g_cfails ? 1 : 0;
}
