/* Block-level harness: runs the REAL lz4.c / lz4hc.c (included, so static functions are reachable) under ASan/UBSan
 * with exact-size heap buffers, checks what can be checked on the C side (real decoder, determinism), and writes one
 * record per case for the Lean judge (specification decoder, end conditions, models).
 *
 * usage: blk <mode> <tier> <seed> <casefile> <crashfile>
 *   modes: c01 c06 c09 c17  (compressor side)    -- decoder-side modes live in dec.c
 */
#define LZ4_STATIC_LINKING_ONLY
#define LZ4_HC_STATIC_LINKING_ONLY
#include "lz4.c"
#include "lz4hc.c"
#include "gen.h"

enum { E_DEFAULT = 0, E_FAST, E_FAST_EXTSTATE, E_FAST_FASTRESET, E_HC, E_HC_EXTSTATE, E_HC_FASTRESET, E_HC_FAVOR, E_DESTSIZE, E_DESTSIZE_EXT, E_HC_DESTSIZE, E_FAST_FASTRESET_WARM, E_HC_FASTRESET_WARM, E_NB };
static const char* const e_names[E_NB] = {"default","fast","fast_extState","fast_extState_fastReset","HC","HC_extStateHC","HC_extStateHC_fastReset","HC_favorDecSpeed","destSize","destSize_extState","HC_destSize","fast_extState_fastReset_reused","HC_extStateHC_fastReset_reused"};

enum { OP_BLOCK = 1 };

static u64 n_calls = 0, n_success = 0, n_zero = 0, n_matchy = 0, ent_hist[E_NB], kind_hist[D_KINDS], size_hist[8];
static int size_class(size_t n) { return n == 0 ? 0 : n < 13 ? 1 : n < 256 ? 2 : n < 4096 ? 3 : n < 65536 ? 4 : n < 65536 + 12 ? 5 : n < (1 << 20) ? 6 : 7; }

static void fill_garbage(void* p, size_t n) { u8* b = (u8*)p; size_t i; u64 x = rnd(); for (i = 0; i < n; i++) { x = x * 6364136223846793005ULL + 1442695040888963407ULL; b[i] = (u8)(x >> 56); } }

/* one call of a one-shot compressor; returns r and (for destSize) *consumed */
static int call_entry(int entry, int param, const char* src, int n, char* dst, int cap, int* consumed, int garbageSeed)
{
    int r = 0; *consumed = n;
    switch (entry) {
    case E_DEFAULT: r = LZ4_compress_default(src, dst, n, cap); break;
    case E_FAST: r = LZ4_compress_fast(src, dst, n, cap, param); break;
    case E_FAST_EXTSTATE: { void* st = malloc(LZ4_sizeofState()); g_rs ^= (u64)garbageSeed * 77; fill_garbage(st, LZ4_sizeofState()); r = LZ4_compress_fast_extState(st, src, dst, n, cap, param); free(st); break; }
    case E_FAST_FASTRESET: { LZ4_stream_t* st = LZ4_createStream(); r = LZ4_compress_fast_extState_fastReset(st, src, dst, n, cap, param); LZ4_freeStream(st); break; }
    case E_FAST_FASTRESET_WARM: {   /* the documented use of _fastReset: a state that already served other compressions (small ones keep the byU16 table, a large one switches type) */
        LZ4_stream_t* st = LZ4_createStream(); int w, nw = 1 + (int)rndn(3);
        for (w = 0; w < nw; w++) { int wn = rndp(75) ? (int)rndn(3500) : (int)rndn(90000); char* ws = (char*)malloc((size_t)wn + 1); int wb = LZ4_compressBound(wn); char* wd = (char*)malloc((size_t)wb + 1); int k2;
            for (k2 = 0; k2 < wn; k2++) ws[k2] = rndp(50) ? (char)rnd() : (char)('a' + rndn(4));
            if (rndp(20) && n > 0) memcpy(ws, src, (size_t)(wn < n ? wn : n));      /* similar content: stale entries that look like matches */
            (void)LZ4_compress_fast_extState_fastReset(st, ws, wd, wn, rndp(70) ? wb : (int)rndn((u32)wb + 1), 1 + (int)rndn(3)); free(ws); free(wd); }
        r = LZ4_compress_fast_extState_fastReset(st, src, dst, n, cap, param); LZ4_freeStream(st); break; }
    case E_HC_FASTRESET_WARM: {
        LZ4_streamHC_t* st = LZ4_createStreamHC(); int w, nw = 1 + (int)rndn(3);
        for (w = 0; w < nw; w++) { int wn = rndp(75) ? (int)rndn(3500) : (int)rndn(90000); char* ws = (char*)malloc((size_t)wn + 1); int wb = LZ4_compressBound(wn); char* wd = (char*)malloc((size_t)wb + 1); int k2;
            for (k2 = 0; k2 < wn; k2++) ws[k2] = rndp(50) ? (char)rnd() : (char)('a' + rndn(4));
            if (rndp(20) && n > 0) memcpy(ws, src, (size_t)(wn < n ? wn : n));
            (void)LZ4_compress_HC_extStateHC_fastReset(st, ws, wd, wn, rndp(70) ? wb : (int)rndn((u32)wb + 1), (int)rndn(13)); free(ws); free(wd); }
        r = LZ4_compress_HC_extStateHC_fastReset(st, src, dst, n, cap, param); LZ4_freeStreamHC(st); break; }
    case E_HC: r = LZ4_compress_HC(src, dst, n, cap, param); break;
    case E_HC_EXTSTATE: { void* st = malloc(LZ4_sizeofStateHC()); g_rs ^= (u64)garbageSeed * 77; fill_garbage(st, LZ4_sizeofStateHC()); r = LZ4_compress_HC_extStateHC(st, src, dst, n, cap, param); free(st); break; }
    case E_HC_FASTRESET: { LZ4_streamHC_t* st = LZ4_createStreamHC(); r = LZ4_compress_HC_extStateHC_fastReset(st, src, dst, n, cap, param); LZ4_freeStreamHC(st); break; }
    case E_HC_FAVOR: { LZ4_streamHC_t* st = LZ4_createStreamHC(); LZ4_setCompressionLevel(st, param); LZ4_favorDecompressionSpeed(st, 1); r = LZ4_compress_HC_continue(st, src, dst, n, cap); LZ4_freeStreamHC(st); break; }
    case E_DESTSIZE: { int s = n; r = LZ4_compress_destSize(src, dst, &s, cap); *consumed = s; break; }
    case E_DESTSIZE_EXT: { void* st = malloc(LZ4_sizeofState()); int s = n; fill_garbage(st, LZ4_sizeofState()); r = LZ4_compress_destSize_extState(st, src, dst, &s, cap, param); *consumed = s; free(st); break; }
    case E_HC_DESTSIZE: { void* st = malloc(LZ4_sizeofStateHC()); int s = n; fill_garbage(st, LZ4_sizeofStateHC()); r = LZ4_compress_HC_destSize(st, src, dst, &s, cap, param); *consumed = s; free(st); break; }
    }
    return r;
}

static int is_destsize(int e) { return e == E_DESTSIZE || e == E_DESTSIZE_EXT || e == E_HC_DESTSIZE; }
static int is_fullreset(int e) { return e == E_FAST_EXTSTATE || e == E_HC_EXTSTATE || e == E_DESTSIZE_EXT || e == E_HC_DESTSIZE; }

/* run one case: exact-size src and dst; real-decoder checks; record for the judge */
static void do_case(const u8* data, size_t n, int entry, int param, int cap, int kind, int flags)
{
    rec_t r; int ret, consumed = 0; u64 saved;
    u8* src = xalloc(n); u8* dst = xalloc(cap > 0 ? (size_t)cap : 0);
    memcpy(src, data, n);
    rec_begin(&r, OP_BLOCK); rec_int(&r, entry); rec_int(&r, param); rec_int(&r, cap); rec_int(&r, 0); rec_int(&r, 0); rec_bytes(&r, src, n); rec_bytes(&r, NULL, 0); rec_int(&r, flags);
    cur_set(&r);
    saved = g_rs;
    ret = call_entry(entry, param, (const char*)src, (int)n, (char*)dst, cap, &consumed, 1);
    n_calls++; ent_hist[entry]++; kind_hist[kind]++; size_hist[size_class(n)]++;
    if (ret > 0) n_success++; else n_zero++;
    if (ret > 0 && (size_t)ret < n) n_matchy++;
    /* rewrite the record with results */
    r.n = 0; rec_int(&r, entry); rec_int(&r, param); rec_int(&r, cap); rec_int(&r, ret); rec_int(&r, consumed); rec_bytes(&r, src, n);
    rec_bytes(&r, dst, ret > 0 && ret <= cap ? (size_t)ret : 0); rec_int(&r, flags);
    if (ret > cap && !(ret > 0 && cap < 0)) { if (ret > 0) c_fail(&r, "ret_gt_cap"); }
    if (ret < 0) c_fail(&r, "negative_return");
    if (is_destsize(entry) && (consumed < 0 || (size_t)consumed > n)) c_fail(&r, "consumed_out_of_range");
    if (ret > 0 && ret <= cap) {
        size_t want = is_destsize(entry) ? (size_t)consumed : n;
        /* real decoder, capacities n, n+1, 2n+7, each an exact-size buffer with arbitrary initial content */
        size_t caps[3]; int k; caps[0] = want; caps[1] = want + 1; caps[2] = 2 * want + 7;
        for (k = 0; k < 3; k++) {
            u8* out = xalloc(caps[k]); int d; u8* csrc = xalloc((size_t)ret); memcpy(csrc, dst, (size_t)ret);
            fill_garbage(out, caps[k]);
            d = LZ4_decompress_safe((const char*)csrc, (char*)out, ret, (int)caps[k]);
            if (d != (int)want || memcmp(out, src, want) != 0) { c_fail(&r, k == 0 ? "real_decoder_mismatch_cap_n" : k == 1 ? "real_decoder_mismatch_cap_n1" : "real_decoder_mismatch_cap_2n"); free(out); free(csrc); break; }
            free(out); free(csrc);
        }
    }
    /* full-reset entry points: result must not depend on the previous content of the state memory */
    if (is_fullreset(entry)) {
        u8* dst2 = xalloc(cap > 0 ? (size_t)cap : 0); int consumed2 = 0, ret2;
        g_rs = saved;
        ret2 = call_entry(entry, param, (const char*)src, (int)n, (char*)dst2, cap, &consumed2, 2);
        if (ret2 != ret || consumed2 != consumed || (ret > 0 && ret <= cap && memcmp(dst, dst2, (size_t)ret) != 0)) c_fail(&r, "full_reset_depends_on_state_garbage");
        free(dst2);
    }
    cur_clear();
    rec_write(&r);
    free(src); free(dst);
}

/* a one-shot entry point: the 8 plain ones, the two "reused state" variants, optionally the destSize ones */
static int pick_entry(int withDestSize)
{
    static const int plain[] = {E_DEFAULT, E_FAST, E_FAST_EXTSTATE, E_FAST_FASTRESET, E_HC, E_HC_EXTSTATE, E_HC_FASTRESET, E_HC_FAVOR, E_FAST_FASTRESET_WARM, E_HC_FASTRESET_WARM, E_FAST_FASTRESET_WARM};
    if (withDestSize && rndp(25)) return E_DESTSIZE + (int)rndn(3);
    return plain[rndn(11)];
}

static int pick_param(int entry)
{
    switch (entry) {
    case E_FAST: case E_FAST_EXTSTATE: case E_FAST_FASTRESET: case E_FAST_FASTRESET_WARM: case E_DESTSIZE_EXT: { static const int a[] = {1,1,1,2,3,7,8,17,64,1000,65537,0,-5,2147483647}; return a[rndn(14)]; }
    case E_HC: case E_HC_EXTSTATE: case E_HC_FASTRESET: case E_HC_FASTRESET_WARM: case E_HC_DESTSIZE: { static const int l[] = {1,2,3,4,5,6,7,8,9,10,11,12,0,-1,13,99}; return l[rndn(16)]; }
    case E_HC_FAVOR: return 10 + (int)rndn(3);
    default: return 1;
    }
}

/* all strings over {a,b} of a given length, exhaustively (G4) */
static void exhaustive_ab(int maxLen, const int* entries, int nEntries)
{
    int len; u8 buf[32];
    for (len = 0; len <= maxLen; len++) {
        u32 total = 1u << len, v; int i, e;
        for (v = 0; v < total; v++) {
            for (i = 0; i < len; i++) buf[i] = (u8)('a' + ((v >> i) & 1));
            for (e = 0; e < nEntries; e++) { int p = entries[e] >= E_HC ? (entries[e] == E_HC_FAVOR ? 10 : 9) : 1; do_case(buf, (size_t)len, entries[e], p, LZ4_compressBound(len), D_ALPHA2, 1); }
        }
    }
}

/* repeats at distance exactly one window (65535 +- 2) from the very first byte, for every parser */
/* short inputs over 2..4 letter alphabets through EVERY HC level (1..12: mid, hash-chain, optimal parsers) and the fast compressor: on such data
 * almost every position has several candidate matches of similar length, which is where the parsers' tie-breaks and end-of-block guards are exercised */
static void tiny_alphabet_sweep(u8* data, int ncases)
{
    int i;
    for (i = 0; i < ncases; i++) {
        size_t n = 13 + rndn(rndp(80) ? 120 : 320), k; int a = 2 + (int)rndn(3), lv, bound;
        for (k = 0; k < n; k++) data[k] = (u8)('a' + rndn((u32)a));
        bound = LZ4_compressBound((int)n);
        do_case(data, n, E_HC, 1, bound, D_ALPHA2, 1); do_case(data, n, E_HC, 2, bound, D_ALPHA2, 1);
        lv = 3 + (int)rndn(10); do_case(data, n, rndp(50) ? E_HC : E_HC_EXTSTATE, lv, rndp(70) ? bound : (int)rndn((u32)bound + 1), D_ALPHA2, 1);
        if (rndp(30)) do_case(data, n, E_DEFAULT, 1, bound, D_ALPHA2, 1);
    }
}

static void window_edge_cases(u8* data)
{
    int delta, e; static const int ents[] = {E_DEFAULT, E_HC, E_HC, E_HC, E_HC, E_HC_FAVOR}; static const int params[] = {1, 3, 4, 9, 10, 12};
    for (delta = -2; delta <= 2; delta++) {
        size_t d = (size_t)(65536 + delta), l = 40 + rndn(300), n = d + l + 20 + rndn(500), i;
        for (i = 0; i < n; i++) data[i] = (u8)rnd();
        memcpy(data + d, data, l);
        for (e = 0; e < 6; e++) do_case(data, n, ents[e], params[e], LZ4_compressBound((int)n), D_FARMATCH, 1);
    }
}

/* the window edge reached by a SECOND lookup: position P has a short (4-byte) match nearby, and the position right after it has a long match at distance
 * 65536 + delta (delta -2..2).  Parsers that look one position ahead with another table or another candidate list (lz4mid's 8-byte table at ip+1, the
 * hash-chain parser's wider-match search, the optimal parser's next-position search) apply a distance test of their own there.  A zero run shortly
 * before P ends the skipping of the accelerating parsers so that P itself is examined; the byte before P differs from the byte before the old copy. */
static void window_edge_second_lookup_cases(u8* data, int reps)
{
    int r, delta, e; static const int ents[] = {E_DEFAULT, E_HC, E_HC, E_HC, E_HC, E_HC, E_HC_FAVOR, E_HC_EXTSTATE}; static const int params[] = {1, 1, 2, 3, 9, 10, 12, 2};
    for (r = 0; r < reps; r++) for (delta = -2; delta <= 2; delta++) {
        size_t K = 20 + rndn(400), Q = K + 100 + rndn(3000), sl = 12 + rndn(60), shortl = 4 + rndn(3);
        size_t P = K + (size_t)(65536 + delta), n = P + sl + 30 + rndn(400), i;
        for (i = 0; i < n; i++) data[i] = (u8)rnd();
        memcpy(data + Q, data + K, shortl); data[Q + shortl] = (u8)(data[K + shortl] ^ 0x55);   /* the nearer, short copy of the head of S */
        memset(data + P - 500, 0, 400);
        memcpy(data + P, data + K, sl); data[P + sl] = (u8)(data[K + sl] ^ 0x55);
        data[P - 1] = (u8)(data[K - 1] ^ 0x55);
        for (e = 0; e < 8; e++) do_case(data, n, ents[e], params[e], LZ4_compressBound((int)n), D_FARMATCH, 1);
    }
}

/* input sizes around LZ4_64Klimit (64 KB + 11), where the fast compressor switches from the 16-bit table (no distance test: every distance is assumed
 * <= 65535) to the 32-bit one: the tail of the input repeats its head at distance EXACTLY 65536, incompressible in between so that position 65536 is examined */
static void size64k_limit_cases(u8* data)
{
    size_t n, i; int e; static const int ents[] = {E_DEFAULT, E_FAST, E_FAST, E_FAST_EXTSTATE, E_FAST_FASTRESET}; static const int params[] = {1, 2, 257, 1, 1};
    for (n = 65536 + 4; n <= 65536 + 26; n++) {
        for (i = 0; i < 65536; i++) data[i] = (u8)rnd();
        memcpy(data + 65536, data, n - 65536);
        for (e = 0; e < 5; e++) do_case(data, n, ents[e], params[e], LZ4_compressBound((int)n), D_FARMATCH, 1);
        /* the same distance reached through ONE long match: 8 bytes, then zeroes (a single match swallows them, their positions are not inserted, the table
         * slot of the head still says "position 0"), then the head again at the last position where a match may start (n - 12) */
        if (n >= 65536 + 12) { u8 head[8]; for (i = 0; i < 8; i++) head[i] = (u8)(1 + rndn(255)); memset(data, 0, n); memcpy(data, head, 8); memcpy(data + n - 12, head, 7);
            for (e = 0; e < 5; e++) do_case(data, n, ents[e], params[e], LZ4_compressBound((int)n), D_FARMATCH, 1); }
    }
}

/* single-byte RUNS cut by the window edge: an older run R1 of a byte and, one window later, a longer run R2 of the same byte, placed so that
 * position (start of R2) - 65535 falls strictly inside R1 (only part of R1 is still visible).  This is the geometry in which the HC "pattern analysis"
 * (levels 9+) extends a match backwards over a run it cannot fully see; every level and the fast compressor are run on it. */
static void run_window_edge_cases(u8* data, int reps)
{
    int r, e; static const int ents[] = {E_DEFAULT, E_HC, E_HC, E_HC, E_HC, E_HC, E_HC_FAVOR, E_HC_EXTSTATE}; static const int params[] = {1, 2, 3, 9, 10, 12, 11, 9};
    for (r = 0; r < reps; r++) {
        size_t A = 5 + rndn(rndp(70) ? 60 : 400), vis = 1 + rndn((u32)A - 1), B = vis + 1 + rndn(200), p0 = 10 + rndn(3000);
        size_t s2 = p0 + (A - vis) + 65535, n = s2 + B + 20 + rndn(300), i; u8 b = (u8)rnd();
        if (n > (256u << 10)) continue;
        for (i = 0; i < n; i++) { u8 v = (u8)rnd(); data[i] = (v == b) ? (u8)(v + 1) : v; }      /* filler never contains b: no nearer run of b */
        memset(data + p0, b, A); memset(data + s2, b, B);
        if (rndp(30)) memset(data + s2 + B + 5, b, 4);                                            /* a short decoy run after R2 */
        for (e = 0; e < 8; e++) do_case(data, n, ents[e], params[e], LZ4_compressBound((int)n), D_RUNS, 1);
    }
}

/* long literal runs followed by a match, capacity swept across the tight region (limited-output guards are exact for wildCopy8) */
static void long_literal_sweep(u8* data, int nL, int thorough)
{
    int k;
    for (k = 0; k < nL; k++) {
        size_t L = 4000 + rndn(thorough ? 70000 : 12000), R = 40 + rndn(300), n = L + R + 16, i; int cap, entry = (int[]){E_DEFAULT, E_FAST, E_FAST_EXTSTATE, E_FAST_FASTRESET}[rndn(4)];
        for (i = 0; i < L; i++) data[i] = (u8)rnd();
        for (i = L; i < n; i++) data[i] = data[i - 7];
        for (cap = (int)L; cap <= (int)L + (int)L / 255 + 40; cap++) do_case(data, n, entry, 1, cap, D_RANDOM, 1);
    }
}

int main(int argc, char** argv)
{
    const char* mode; int thorough; u64 seed; size_t maxn; u8* data; int i;
    if (argc < 6) { fprintf(stderr, "usage: blk mode tier seed casefile crashfile\n"); return 2; }
    mode = argv[1]; thorough = !strcmp(argv[2], "thorough"); seed = strtoull(argv[3], 0, 10);
    harness_init(argv[4], argv[5], seed);
    maxn = thorough ? (8u << 20) : (256u << 10);
    data = xalloc(maxn + 16);

    if (!strcmp(mode, "c01") || !strcmp(mode, "c06")) {
        static const int ents[] = {E_DEFAULT, E_FAST_FASTRESET, E_HC, E_HC_FAVOR};
        int ncases = thorough ? SH(40000) : 2500;
        if (ONCE) exhaustive_ab(thorough ? 16 : 11, ents, !strcmp(mode, "c06") ? 3 : 4);
        window_edge_cases(data); size64k_limit_cases(data);
        window_edge_second_lookup_cases(data, thorough ? SH(80) : 8);
        run_window_edge_cases(data, thorough ? SH(400) : 40);
        tiny_alphabet_sweep(data, thorough ? SH(40000) : 3000);
        for (i = 0; i < ncases; i++) {
            int kind = (int)rndn(D_KINDS); size_t n = gen_size(i % 50 == 0 ? maxn : (i % 7 == 0 ? 70000 : 3000));
            int entry, param, cap, bound, e, nrep;
            gen_data(data, n, kind);
            bound = LZ4_compressBound((int)n);
            nrep = n > 100000 ? 1 : 3;
            for (e = 0; e < nrep; e++) {
                entry = pick_entry(!strcmp(mode, "c06")); param = pick_param(entry);
                if (n > 300000 && entry >= E_HC && param > 9 && !thorough) param = 9;   /* keep quick quick */
                cap = is_destsize(entry) ? (rndp(50) ? bound : 1 + (int)rndn((u32)bound + 1)) : (rndp(70) ? bound : rndp(50) ? bound + 1 + (int)rndn(100) : (int)rndn((u32)bound + 1));
                do_case(data, n, entry, param, cap, kind, 1);
            }
        }
    } else if (!strcmp(mode, "c09")) {
        /* every capacity 0..bound+1 for small inputs; sampled capacities for larger ones; bad sizes */
        int ncases = thorough ? SH(4000) : 260;
        for (i = 0; i < ncases; i++) {
            int kind = i % 3 == 0 ? D_RANDOM : (int)rndn(D_KINDS); size_t n = rndp(70) ? rndn(thorough ? 700 : 300) : gen_size(3000);
            int bound, cap, entry, param;
            if (n > 700) n = 700;
            gen_data(data, n, kind);
            bound = LZ4_compressBound((int)n);
            entry = pick_entry(0); param = pick_param(entry);
            for (cap = 0; cap <= bound + 1; cap++) do_case(data, n, entry, param, cap, kind, 1);
        }
        for (i = 0; i < (thorough ? SH(3000) : 300); i++) {
            int kind = rndp(50) ? D_RANDOM : (int)rndn(D_KINDS); size_t n = gen_size(maxn); int bound, entry, param, cap;
            gen_data(data, n, kind); bound = LZ4_compressBound((int)n);
            entry = pick_entry(0); param = pick_param(entry);
            if (n > 300000 && entry >= E_HC && param > 9 && !thorough) param = 9;
            switch (rndn(6)) { case 0: cap = bound; break; case 1: cap = bound - 1; break; case 2: cap = bound + 1; break; case 3: cap = (int)n; break; case 4: cap = (int)n + (int)n / 255 + (int)rndn(17); break; default: cap = (int)rndn((u32)bound + 2); }
            if (cap < 0) cap = 0;
            do_case(data, n, entry, param, cap, kind, 1);
        }
        long_literal_sweep(data, thorough ? SH(6000) : 700, thorough);
        /* invalid sizes: negative and above LZ4_MAX_INPUT_SIZE must give 0 without touching memory */
        {   static const int bad[] = {-1, -2, -2147483647 - 1, LZ4_MAX_INPUT_SIZE + 1, 2147483647};
            int b, e; char d[64]; char s[64]; memset(s, 1, sizeof s);
            for (b = 0; b < 5; b++) for (e = 0; e < E_DESTSIZE; e++) {
                int consumed, ret; rec_t r; int param = pick_param(e);
                rec_begin(&r, 9); rec_int(&r, e); rec_int(&r, bad[b]); cur_set(&r);
                ret = call_entry(e, param, s, bad[b], d, 64, &consumed, 1);
                n_calls++;
                if (ret != 0) c_fail(&r, "bad_size_nonzero");
                cur_clear();
            }
            if (LZ4_compressBound(-1) != 0 || LZ4_compressBound(LZ4_MAX_INPUT_SIZE + 1) != 0) { rec_t r; rec_begin(&r, 9); c_fail(&r, "compressBound_bad_size_nonzero"); }
        }
    } else if (!strcmp(mode, "c17")) {
        /* every targetDstSize 1..bound+1 for small inputs, all three destSize entry points, all HC parsers */
        int ncases = thorough ? SH(2500) : 160;
        {   /* the smallest inputs (0..14 bytes: below and at LZ4_minLength / MFLIMIT) x every HC level and a few accelerations x every target */
            size_t n; int lv, t;
            for (n = 0; n <= 14; n++) { int kind = (int)rndn(D_KINDS); int bound; gen_data(data, n, kind); bound = LZ4_compressBound((int)n);
                for (lv = 0; lv <= 12; lv++) for (t = 1; t <= bound + 1; t += (t > 6 && t < bound - 2) ? 3 : 1) do_case(data, n, E_HC_DESTSIZE, lv, t, kind, 1);
                for (t = 1; t <= bound + 1; t++) { do_case(data, n, E_DESTSIZE, 1, t, kind, 1); do_case(data, n, E_DESTSIZE_EXT, pick_param(E_DESTSIZE_EXT), t, kind, 1); } }
        }
        for (i = 0; i < ncases; i++) {
            int kind = (int)rndn(D_KINDS); size_t n = rndp(75) ? rndn(thorough ? 700 : 320) : gen_size(3000);
            int bound, t, entry, param;
            if (n > 700) n = 700;
            gen_data(data, n, kind); bound = LZ4_compressBound((int)n);
            entry = E_DESTSIZE + (int)rndn(3); param = pick_param(entry);
            for (t = 1; t <= bound + 1; t++) do_case(data, n, entry, param, t, kind, 1);
        }
        for (i = 0; i < (thorough ? SH(3000) : 300); i++) {
            int kind = (int)rndn(D_KINDS); size_t n = gen_size(maxn); int bound, entry, param, t;
            gen_data(data, n, kind); bound = LZ4_compressBound((int)n);
            entry = E_DESTSIZE + (int)rndn(3); param = pick_param(entry);
            if (n > 300000 && entry == E_HC_DESTSIZE && param > 9 && !thorough) param = 9;
            t = rndp(25) ? bound : rndp(30) ? 1 + (int)rndn(40) : 1 + (int)rndn((u32)bound + 1);
            do_case(data, n, entry, param, t, kind, 1);
        }
    } else { fprintf(stderr, "unknown mode %s\n", mode); return 2; }

    harness_done();
    stat_u("calls", n_calls); stat_u("success", n_success); stat_u("zero_returns", n_zero); stat_u("compressed_smaller", n_matchy); stat_u("records", g_nrecords);
    for (i = 0; i < E_NB; i++) if (ent_hist[i]) { char k[64]; snprintf(k, sizeof k, "entry.%s", e_names[i]); stat_u(k, ent_hist[i]); }
    for (i = 0; i < D_KINDS; i++) if (kind_hist[i]) { char k[64]; snprintf(k, sizeof k, "data.%s", d_names[i]); stat_u(k, kind_hist[i]); }
    for (i = 0; i < 8; i++) if (size_hist[i]) { char k[64]; snprintf(k, sizeof k, "sizeclass.%d", i); stat_u(k, size_hist[i]); }
    stat_u("cfails", (u64)g_cfails);
    return g_cfails ? 1 : 0;
}
