/* Shared helpers for the C harnesses: one splitmix64 PRNG, data generators (G2), case-record writer,
 * exact-size heap buffers, and a "current case" dump that survives a sanitizer abort.
 * Record format (little endian):  u32 magic 'Z4CV' | u32 op | u32 caseId | u32 nargs | nargs x { u32 len | bytes } */
#ifndef VERIF_GEN_H
#define VERIF_GEN_H
#include <stdio.h>
#include <stdlib.h>
#include <string.h>
#include <stdint.h>
#include <unistd.h>

typedef unsigned char u8;
typedef uint64_t u64;
typedef uint32_t u32;

/* ---------- PRNG ---------- */
static u64 g_rs = 0x9E3779B97F4A7C15ULL;
static void rseed(u64 s) { g_rs = s * 0x2545F4914F6CDD1DULL + 0x9E3779B97F4A7C15ULL; }
static u64 rnd(void) { u64 z = (g_rs += 0x9E3779B97F4A7C15ULL); z = (z ^ (z >> 30)) * 0xBF58476D1CE4E5B9ULL; z = (z ^ (z >> 27)) * 0x94D049BB133111EBULL; return z ^ (z >> 31); }
static u32 rndn(u32 n) { return n ? (u32)(rnd() % n) : 0; }
static int rndr(int lo, int hi) { return lo + (int)rndn((u32)(hi - lo + 1)); }
static int rndp(int pct) { return (int)rndn(100) < pct; }

/* ---------- exact-size buffers (ASan red zones sit right at both ends) ---------- */
static u8* xalloc(size_t n) { u8* p = (u8*)malloc(n ? n : 1); if (!p) { fprintf(stderr, "oom %zu\n", n); exit(3); } return p; }

/* ---------- data generators (G2) ---------- */
enum { D_RANDOM, D_ALPHA2, D_ALPHA4, D_PERIODIC, D_RUNS, D_LZLIKE, D_TEXT, D_ZERO, D_FARMATCH, D_TAILMATCH, D_LONGMATCH, D_KINDS };
static const char* const d_names[D_KINDS] = {"random","alpha2","alpha4","periodic","runs","lzlike","text","zero","farmatch","tailmatch","longmatch"};

static void gen_data(u8* p, size_t n, int kind)
{
    size_t i;
    switch (kind) {
    default:
    case D_RANDOM: for (i = 0; i < n; i++) p[i] = (u8)rnd(); break;
    case D_ALPHA2: for (i = 0; i < n; i++) p[i] = (u8)('a' + rndn(2)); break;
    case D_ALPHA4: for (i = 0; i < n; i++) p[i] = (u8)('a' + rndn(4)); break;
    case D_PERIODIC: { u32 per = 1 + rndn(rndp(50) ? 8 : 300); u8 pat[300]; for (i = 0; i < per; i++) pat[i] = (u8)rnd();
        for (i = 0; i < n; i++) { p[i] = pat[i % per]; if (rndn(2000) == 0) p[i] ^= 1; } break; }
    case D_RUNS: i = 0; while (i < n) { size_t r = 1 + rndn(rndp(20) ? 1200 : 40); u8 b = (u8)rndn(rndp(50) ? 3 : 256); while (r-- && i < n) p[i++] = b; } break;
    case D_LZLIKE: i = 0; while (i < n) {
            if (i > 8 && rndp(60)) { size_t maxd = i < 65535 ? i : 65535; size_t d = 1 + (rndp(30) ? rndn(16) : rndn((u32)maxd)); size_t l = 4 + (rndp(10) ? rndn(2000) : rndn(40)); if (d > i) d = i;
                while (l-- && i < n) { p[i] = p[i - d]; i++; } }
            else { size_t l = 1 + rndn(rndp(5) ? 600 : 20); while (l-- && i < n) p[i++] = (u8)rnd(); } } break;
    case D_TEXT: { static const char* w[] = {"the ","lz4 ","block ","frame ","match ","literal ","offset ","a ","of ","and ","compression ","stream ","\n","0123456789 "};
        i = 0; while (i < n) { const char* s = w[rndn(14)]; while (*s && i < n) p[i++] = (u8)*s++; } break; }
    case D_ZERO: memset(p, 0, n); break;
    case D_FARMATCH: /* random data whose second part repeats content close to 64 KB earlier */
        for (i = 0; i < n; i++) p[i] = (u8)rnd();
        if (n > 66000) { size_t at = 65536 + rndn((u32)(n - 65900)); int delta = rndr(-3, 3); size_t d = (size_t)(65535 + delta); size_t l = 20 + rndn(200);
            if (rndp(50)) at = d;   /* the repeat sits exactly one window after the very first byte */
            if (at >= d) for (i = 0; i < l && at + i < n; i++) p[at + i] = p[at + i - d]; }
        break;
    case D_TAILMATCH: /* a repeat that would run into the last 12/13 bytes */
        for (i = 0; i < n; i++) p[i] = (u8)rnd();
        if (n >= 30) { size_t l = 14 + rndn(10); size_t d = 1 + rndn((u32)(n - l - 1 > 200 ? 200 : n - l - 1)); if (l + d <= n) for (i = n - l; i < n; i++) p[i] = p[i - d]; }
        break;
    case D_LONGMATCH: /* matches whose length encodings straddle 255-multiples */
        i = 0; while (i < n) { size_t l = 1 + rndn(30); while (l-- && i < n) p[i++] = (u8)rnd();
            if (i > 4) { static const int ls[] = {18,19,20,273,274,275,528,529,1039,4100,70000}; size_t ml = (size_t)ls[rndn(11)] + rndn(3); size_t d = 1 + rndn((u32)(i < 300 ? i : 300));
                while (ml-- && i < n) { p[i] = p[i - d]; i++; } } }
        break;
    }
}

/* interesting sizes around the parser limits */
static size_t gen_size(size_t maxn)
{
    static const size_t edges[] = {0,1,2,4,5,11,12,13,14,15,16,17,18,19,20,31,32,33,63,64,65,127,128,255,256,269,270,271,272,273,274,300,
        4095,4096,4097,65535-12,65535,65536,65536+10,65536+11,65536+12,65536+13,70000,131072,262144+5,1048576+3};
    size_t n;
    if (rndp(35)) { n = edges[rndn(sizeof(edges)/sizeof(edges[0]))]; if (rndp(30)) n += rndn(3); }
    else if (rndp(50)) n = rndn(600);
    else if (rndp(60)) n = rndn(20000);
    else n = rndn((u32)maxn);
    if (n > maxn) n = maxn ? rndn((u32)maxn) : 0;
    return n;
}

/* ---------- record writer ---------- */
static FILE* g_casef = NULL;
static u32 g_caseId = 0;
static u64 g_nrecords = 0;
#define MAXARGS 72
typedef struct { u32 op, id, n; const void* p[MAXARGS]; u32 len[MAXARGS]; u64 ints[MAXARGS]; } rec_t;
static void rec_begin(rec_t* r, u32 op) { r->op = op; r->id = ++g_caseId; r->n = 0; }
static void rec_bytes(rec_t* r, const void* p, size_t len) { r->p[r->n] = p; r->len[r->n] = (u32)len; r->n++; }
static void rec_int(rec_t* r, long long v) { r->ints[r->n] = (u64)v; r->p[r->n] = &r->ints[r->n]; r->len[r->n] = 8; r->n++; }
static void rec_write_to(FILE* f, const rec_t* r)
{
    u32 hdr[4] = { 0x5643345AU, r->op, r->id, r->n }; u32 i;
    fwrite(hdr, 4, 4, f);
    for (i = 0; i < r->n; i++) { fwrite(&r->len[i], 4, 1, f); if (r->len[i]) fwrite(r->p[i], 1, r->len[i], f); }
}
static void rec_write(const rec_t* r) { if (g_casef) { rec_write_to(g_casef, r); g_nrecords++; } }

/* ---------- current-case dump for sanitizer aborts ---------- */
static const char* g_crashPath = NULL;
static rec_t g_cur; static int g_curValid = 0;
static void cur_set(const rec_t* r) { g_cur = *r; { u32 i; for (i = 0; i < r->n; i++) if (r->p[i] == &r->ints[i]) g_cur.p[i] = &g_cur.ints[i]; } g_curValid = 1; }
static void cur_clear(void) { g_curValid = 0; }
static void crash_dump(void)
{
    if (g_curValid && g_crashPath) { FILE* f = fopen(g_crashPath, "wb"); if (f) { rec_write_to(f, &g_cur); fclose(f); } }
    if (g_casef) fflush(g_casef);
}
#ifdef __cplusplus
extern "C"
#endif
void __sanitizer_set_death_callback(void (*)(void));
/* thorough tier: the work of one check is split over VERIF_SHARD=i/K processes; SH(x) is this process's share of x iterations, every shard draws its own
 * random stream, one-off scenarios run in shard 0 (ONCE) or in the shard whose number they name (SHARD_IS) */
static int g_shard = 0, g_shards = 1;
#define SH(x) ((int)((((long long)(x)) + g_shards - 1) / g_shards))
#define ONCE (g_shard == 0)
#define SHARD_IS(k) (g_shard == (int)((k) % g_shards))
static void harness_init(const char* casePath, const char* crashPath, u64 seed)
{
    { const char* e = getenv("VERIF_SHARD"); int a, b; if (e && sscanf(e, "%d/%d", &a, &b) == 2 && b >= 1 && a >= 0 && a < b) { g_shard = a; g_shards = b; if (b > 1) seed = seed * 1000003ull + (u64)a * 7919ull + 1; } }
    rseed(seed);
    if (casePath) { g_casef = fopen(casePath, "wb"); if (!g_casef) { perror(casePath); exit(3); } setvbuf(g_casef, NULL, _IOFBF, 1 << 20); }
    g_crashPath = crashPath;
#if defined(__SANITIZE_ADDRESS__) || defined(VERIF_ASAN)
    __sanitizer_set_death_callback(crash_dump);
#endif
}
static void harness_done(void) { if (g_casef) { fclose(g_casef); g_casef = NULL; } }

/* statistics printed as "STAT key value" lines */
static void stat_u(const char* k, u64 v) { printf("STAT %s %llu\n", k, (unsigned long long)v); }

/* a C-side failure (e.g. real decoder disagrees with the input); the record is also written to failPath */
static int g_cfails = 0;
static void c_fail(const rec_t* r, const char* why)
{
    char path[512];
    g_cfails++;
    snprintf(path, sizeof path, "%s.cfail%d.bin", g_crashPath ? g_crashPath : "/dev/null", g_cfails);
    if (g_cfails <= 5) { FILE* f = fopen(path, "wb"); if (f) { rec_write_to(f, r); fclose(f); } }
    printf("CFAIL case=%u op=%u file=%s reason=%s\n", r->id, r->op, path, why);
}
#endif
