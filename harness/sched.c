/* Deterministic baton-passing scheduler: real threads, exactly one runs at a time; every pthread synchronisation call is a
 * scheduling point; every choice (which runnable thread continues, which waiter a signal wakes, spurious wake-ups) comes from one PRNG
 * seeded by VS_SEED, or from an adversarial policy: VS_POLICY=lifo|fifo (signals wake the newest / oldest waiter), =starve<k> (thread k
 * runs only when nothing else can).  Detects deadlock (no runnable thread) -> exit status 97.
 * At exit prints:  VS_SCHED: steps=.. switches=.. threads=.. selfpushblocks=.. maxwaiters_mixed=..
 *   selfpushblocks : a pool worker blocked in TPool_submitJob on ITS OWN pool (the Lean theorem Pool.push_never_blocks says: never)
 *   mixed          : a condition variable had waiters from two different functions at once (the lost-wake-up hazard) */
#define VS_SCHED_IMPL
#include "vs_sched.h"
/* this file may itself be compiled with -include vs_sched.h: make sure the real pthread functions are used here */
#undef pthread_create
#undef pthread_join
#undef pthread_mutex_init
#undef pthread_mutex_destroy
#undef pthread_mutex_lock
#undef pthread_mutex_unlock
#undef pthread_cond_init
#undef pthread_cond_destroy
#undef pthread_cond_wait
#undef pthread_cond_signal
#undef pthread_cond_broadcast
#include <stdio.h>
#include <stdlib.h>
#include <string.h>
#include <unistd.h>
#define MAXT 512
typedef enum { T_RUN, T_MUTEX, T_COND, T_JOIN, T_DONE } tstate;
typedef struct { int used; pthread_t real; tstate st; void* waitobj; void* waitmutex; int jointarget; pthread_cond_t wake; void*(*fn)(void*); void* arg; unsigned long seq;
                 void* homeMutex; const char* waitFunc; } thr;
static thr T[MAXT]; static int nT = 0; static int current = -1; static pthread_mutex_t G = PTHREAD_MUTEX_INITIALIZER; static __thread int self = -1;
static unsigned long long rs = 0x9E3779B97F4A7C15ULL; static unsigned long steps = 0, switches = 0, waitseq = 0, selfpush = 0, mixed = 0, spurious = 0; static int inited = 0;
static int policy = 0; /* 0 random, 1 lifo, 2 fifo */ static int starve = -1; static int spuriousPct = 0;
static unsigned long long rnd(void) { rs += 0x9E3779B97F4A7C15ULL; { unsigned long long z = rs; z = (z ^ (z >> 30)) * 0xBF58476D1CE4E5B9ULL; z = (z ^ (z >> 27)) * 0x94D049BB133111EBULL; return z ^ (z >> 31); } }
static int* mowner(pthread_mutex_t* m) { return (int*)m; }
static void report(void) { if (inited) fprintf(stderr, "VS_SCHED: steps=%lu switches=%lu threads=%d policy=%d selfpushblocks=%lu mixed=%lu spurious=%lu\n", steps, switches, nT, policy, selfpush, mixed, spurious); }
static void init_once(void)
{
    const char* s; if (inited) return; inited = 1;
    s = getenv("VS_SEED"); if (s) rs ^= strtoull(s, 0, 10) * 0x2545F4914F6CDD1DULL;
    s = getenv("VS_POLICY"); if (s && !strcmp(s, "lifo")) policy = 1; if (s && !strcmp(s, "fifo")) policy = 2; if (s && !strncmp(s, "starve", 6)) starve = atoi(s + 6);
    s = getenv("VS_SPURIOUS"); if (s) spuriousPct = atoi(s);
    T[0].used = 1; T[0].st = T_RUN; pthread_cond_init(&T[0].wake, NULL); nT = 1; self = 0; current = 0; pthread_mutex_lock(&G); atexit(report);
}
static int runnable(int i)
{
    if (!T[i].used) return 0;
    switch (T[i].st) { case T_RUN: return 1; case T_MUTEX: return *mowner((pthread_mutex_t*)T[i].waitobj) == 0; case T_JOIN: return T[T[i].jointarget].st == T_DONE; default: return 0; }
}
static void deadlock(const char* where)
{
    int i; fprintf(stderr, "VS_SCHED: DEADLOCK %s after %lu steps; thread states:", where, steps);
    for (i = 0; i < nT; i++) if (T[i].used) fprintf(stderr, " t%d=%d(%s)", i, (int)T[i].st, T[i].st == T_COND && T[i].waitFunc ? T[i].waitFunc : "-");
    fprintf(stderr, "\n"); report(); _exit(97);
}
static int pick_next(int exclude)
{
    int cand[MAXT], n = 0, i;
    /* spurious wake-ups: a waiting thread may return from cond_wait without a signal (it must then re-acquire the mutex) */
    if (spuriousPct) for (i = 0; i < nT; i++) if (T[i].used && T[i].st == T_COND && (int)(rnd() % 1000) < spuriousPct) { T[i].st = T_MUTEX; T[i].waitobj = T[i].waitmutex; spurious++; }
    for (i = 0; i < nT; i++) if (i != exclude && runnable(i)) cand[n++] = i;
    if (n == 0) return -1;
    if (starve >= 0 && n > 1) { int j = 0; for (i = 0; i < n; i++) if (cand[i] != starve) cand[j++] = cand[i]; n = j; }
    return cand[rnd() % (unsigned)n];
}
/* give the baton to some runnable thread (possibly self) and wait until it comes back */
static void reschedule(void)
{
    int next; steps++; next = pick_next(-1);
    if (next < 0) deadlock("");
    if (next != self) { switches++; current = next; pthread_cond_signal(&T[next].wake); while (current != self) pthread_cond_wait(&T[self].wake, &G); }
}
static void* tramp(void* a)
{
    int id = (int)(long)a; void* r; int next; self = id; pthread_mutex_lock(&G); while (current != self) pthread_cond_wait(&T[self].wake, &G);
    r = T[id].fn(T[id].arg); T[id].st = T_DONE; steps++;
    next = pick_next(id); if (next < 0) deadlock("at thread exit");
    current = next; pthread_cond_signal(&T[current].wake); pthread_mutex_unlock(&G); return r;
}
int vs_create(pthread_t* t, const pthread_attr_t* a, void*(*fn)(void*), void* arg)
{ int id, r; init_once(); id = nT++; if (id >= MAXT) { fprintf(stderr, "VS_SCHED: too many threads\n"); _exit(98); } T[id].used = 1; T[id].st = T_RUN; T[id].fn = fn; T[id].arg = arg; pthread_cond_init(&T[id].wake, NULL);
  r = pthread_create(&T[id].real, a, tramp, (void*)(long)id); *t = T[id].real; reschedule(); return r; }
static int idof(pthread_t t) { int i; for (i = 1; i < nT; i++) if (T[i].used && pthread_equal(T[i].real, t)) return i; return -1; }
int vs_join(pthread_t t, void** rv)
{ int id, r; init_once(); id = idof(t); T[self].st = T_JOIN; T[self].jointarget = id; reschedule(); T[self].st = T_RUN; pthread_mutex_unlock(&G); r = pthread_join(t, rv); pthread_mutex_lock(&G); return r; }
int vs_mutex_init(pthread_mutex_t* m, const pthread_mutexattr_t* a) { (void)a; memset(m, 0, sizeof *m); return 0; }
int vs_mutex_destroy(pthread_mutex_t* m) { (void)m; return 0; }
int vs_mutex_lock(pthread_mutex_t* m)
{ init_once(); if (self > 0 && T[self].homeMutex == NULL) T[self].homeMutex = m;   /* a pool worker's first lock is its own pool's mutex */
  T[self].st = T_MUTEX; T[self].waitobj = m; reschedule(); *mowner(m) = self + 1; T[self].st = T_RUN; return 0; }
int vs_mutex_unlock(pthread_mutex_t* m) { init_once(); *mowner(m) = 0; reschedule(); return 0; }
int vs_cond_init(pthread_cond_t* c, const pthread_condattr_t* a) { (void)a; memset(c, 0, sizeof *c); return 0; }
int vs_cond_destroy(pthread_cond_t* c) { (void)c; return 0; }
int vs_cond_wait_at(pthread_cond_t* c, pthread_mutex_t* m, const char* func)
{
    int i; init_once();
    if (self > 0 && T[self].homeMutex == m && !strcmp(func, "TPool_submitJob")) selfpush++;
    for (i = 0; i < nT; i++) if (T[i].used && T[i].st == T_COND && T[i].waitobj == c && T[i].waitFunc && strcmp(T[i].waitFunc, func)) { mixed++; break; }
    *mowner(m) = 0; T[self].st = T_COND; T[self].waitobj = c; T[self].waitmutex = m; T[self].waitFunc = func; T[self].seq = ++waitseq;
    reschedule(); *mowner(m) = self + 1; T[self].st = T_RUN; return 0;
}
static void wake_one(pthread_cond_t* c)
{
    int w[MAXT], n = 0, i, pick; for (i = 0; i < nT; i++) if (T[i].used && T[i].st == T_COND && T[i].waitobj == c) w[n++] = i;
    if (!n) return; pick = w[0];
    if (policy == 0) pick = w[rnd() % (unsigned)n]; else for (i = 1; i < n; i++) if (policy == 1 ? T[w[i]].seq > T[pick].seq : T[w[i]].seq < T[pick].seq) pick = w[i];
    T[pick].st = T_MUTEX; T[pick].waitobj = T[pick].waitmutex;
}
int vs_cond_signal(pthread_cond_t* c) { init_once(); wake_one(c); reschedule(); return 0; }
int vs_cond_broadcast(pthread_cond_t* c) { int i; init_once(); for (i = 0; i < nT; i++) if (T[i].used && T[i].st == T_COND && T[i].waitobj == c) { T[i].st = T_MUTEX; T[i].waitobj = T[i].waitmutex; } reschedule(); return 0; }
